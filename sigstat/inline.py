"""sigstat.inline - load-time inverse of the "extract method / extract function" refactoring.

Every rule is anchored at functions that exist on the reference tree (their names are frozen in
`baseline_functions.json`). A maintenance commit that moves a block of an anchored function into a *new* private
helper does not change behaviour, but it hides the block from an intra-procedural rule. So, when a module is
loaded, calls of functions that are **not in the baseline inventory** are expanded in place (same module only):

    helper(a, b)                 statement, result ignored
    x = helper(a, b)             single assignment target
    return helper(a, b)
    yield from helper(a, b)      generator helpers, statement position
    if helper(a): / if not helper(a):     (hoisted into a temporary first)
    <any expression>             when the helper's body is a single `return <expr>`

`return` statements of the helper are turned into assignments of the call's target with the remaining statements
nested into the branch that falls through (if/else, try/except/else, with; a `return` inside a loop becomes an
assignment followed by `break` with the rest of the function in the loop's `else`). Parameters are substituted by
the argument expressions when those are plain names / attribute chains / constants and the parameter is never
re-bound, otherwise bound to a fresh local first. Locals of the helper are renamed only when they collide with a
name of the caller. A helper all of whose references could be expanded is removed from the module, so that
who-may-call / who-may-write rules see the same set of functions as before the refactoring.

Whatever is not recognised (recursion, *args, decorators, nested returns that need duplication, calls buried in
larger expressions, helpers used as values) is left alone: the rules then see the un-inlined code and can at worst
be inconclusive. Nothing here decides a property; it only chooses the spelling the rules read.
"""
from __future__ import annotations

import ast
import copy
import json
import os
from typing import Dict, List, Optional, Set, Tuple

_HERE = os.path.dirname(os.path.abspath(__file__))
INVENTORY = os.path.join(_HERE, "baseline_functions.json")


class Bail(Exception):
    pass


# ---------------------------------------------------------------------------------------------
# enumeration of function definitions with stable quals
# ---------------------------------------------------------------------------------------------

class Def:
    __slots__ = ("node", "qual", "container", "cls", "parent", "kind")

    def __init__(self, node, qual, container, cls, parent, kind):
        self.node = node            # FunctionDef
        self.qual = qual
        self.container = container  # list of statements that holds the def
        self.cls = cls              # enclosing ClassDef (direct) or None
        self.parent = parent        # enclosing Def (for nested functions) or None
        self.kind = kind            # "module" | "method" | "nested"


def enumerate_defs(modname: str, tree: ast.Module) -> List[Def]:
    out: List[Def] = []

    def body(stmts, prefix, cls, parent, kind):
        for st in stmts:
            if isinstance(st, (ast.FunctionDef, ast.AsyncFunctionDef)):
                d = Def(st, prefix + st.name, stmts, cls, parent, kind)
                out.append(d)
                nested(st.body, prefix + st.name + ".<locals>.", d)
            elif isinstance(st, ast.ClassDef):
                body(st.body, prefix + st.name + ".", st, parent, "method" if parent is None else "nested")
            elif isinstance(st, (ast.If, ast.Try, ast.With, ast.For, ast.While)):
                for fld in ("body", "orelse", "finalbody"):
                    body(getattr(st, fld, []) or [], prefix, cls, parent, kind)
                for h in getattr(st, "handlers", []) or []:
                    body(h.body, prefix, cls, parent, kind)

    def nested(stmts, prefix, parent):
        for st in stmts:
            if isinstance(st, (ast.FunctionDef, ast.AsyncFunctionDef)):
                d = Def(st, prefix + st.name, stmts, None, parent, "nested")
                out.append(d)
                nested(st.body, prefix + st.name + ".<locals>.", d)
            elif isinstance(st, ast.ClassDef):
                body(st.body, prefix + st.name + ".", st, parent, "nested")
            else:
                for fld in ("body", "orelse", "finalbody"):
                    sub = getattr(st, fld, None)
                    if isinstance(sub, list):
                        nested(sub, prefix, parent)
                for h in getattr(st, "handlers", []) or []:
                    nested(h.body, prefix, parent)

    body(tree.body, modname + ":", None, None, "module")
    return out


def load_inventory() -> Optional[Set[str]]:
    """quals of the functions and `module:NAME` of the module-level names of the reference tree"""
    try:
        with open(INVENTORY) as fh:
            d = json.load(fh)
            return set(d["functions"]) | set(d.get("globals", []))
    except (OSError, ValueError, KeyError):
        return None


def _body_sig(fn) -> str:
    body = [x for x in fn.body if not (isinstance(x, ast.Expr) and isinstance(x.value, ast.Constant) and isinstance(x.value.value, str))]
    import hashlib
    args = ast.dump(fn.args)
    return hashlib.sha256((args + "|" + "|".join(ast.dump(x) for x in body)).encode()).hexdigest()[:24]


def load_bodies() -> Dict[str, str]:
    try:
        with open(INVENTORY) as fh:
            return json.load(fh).get("bodies", {})
    except (OSError, ValueError):
        return {}


def load_templates() -> Dict[str, dict]:
    try:
        with open(INVENTORY) as fh:
            return json.load(fh).get("templates", {})
    except (OSError, ValueError):
        return {}


def module_globals(modname: str, tree: ast.Module) -> List[str]:
    out = []
    for st in tree.body:
        tg = []
        if isinstance(st, ast.Assign):
            tg = st.targets
        elif isinstance(st, (ast.AnnAssign, ast.AugAssign)):
            tg = [st.target]
        for t in tg:
            for n in ast.walk(t):
                if isinstance(n, ast.Name):
                    out.append(f"{modname}:{n.id}")
    return out


def _literal_like(e) -> bool:
    """a value that reads the same wherever it is written: constants, dotted names (errno.EEXIST, os.sep), containers of those,
    frozenset(...) / tuple(...) of such containers, os.path.join of them"""
    if isinstance(e, ast.Constant):
        return True
    if isinstance(e, ast.Name):
        return True
    if isinstance(e, ast.Attribute):
        return _literal_like(e.value)
    if isinstance(e, (ast.Tuple, ast.List, ast.Set)):
        return all(_literal_like(x) for x in e.elts)
    if isinstance(e, ast.Dict):
        return all(k is not None and _literal_like(k) and _literal_like(v) for k, v in zip(e.keys, e.values))
    if isinstance(e, ast.Call) and not e.keywords:
        f = ast.unparse(e.func)
        if f in ("frozenset", "tuple", "os.path.join", "os.sep.join", "re.compile"):
            return all(_literal_like(x) for x in e.args)
    if isinstance(e, ast.UnaryOp) and isinstance(e.op, ast.USub):
        return _literal_like(e.operand)
    return False


# ---------------------------------------------------------------------------------------------
# helpers on ASTs
# ---------------------------------------------------------------------------------------------

def _walk_no_nested(node, include_root=True):
    """walk without descending into nested function / class definitions and lambdas"""
    stack = [node]
    first = True
    while stack:
        n = stack.pop()
        if not first and isinstance(n, (ast.FunctionDef, ast.AsyncFunctionDef, ast.ClassDef, ast.Lambda)):
            continue
        if include_root or not first:
            yield n
        first = False
        stack.extend(ast.iter_child_nodes(n))


def _contains(stmts, types) -> bool:
    for s in stmts:
        for n in _walk_no_nested(s):
            if isinstance(n, types):
                if n is s or True:
                    return True
    return False


def _contains_return(s) -> bool:
    if isinstance(s, ast.Return):
        return True
    if isinstance(s, (ast.FunctionDef, ast.AsyncFunctionDef, ast.ClassDef)):
        return False
    return any(isinstance(n, ast.Return) for n in _walk_no_nested(s, include_root=False))


def _is_generator(fn) -> bool:
    return any(isinstance(n, (ast.Yield, ast.YieldFrom)) for st in fn.body for n in _walk_no_nested(st))


def _terminates(stmts) -> bool:
    """every path through `stmts` ends in return / raise (syntactic)"""
    for s in stmts:
        if isinstance(s, (ast.Return, ast.Raise)):
            return True
        if isinstance(s, ast.If) and s.orelse and _terminates(s.body) and _terminates(s.orelse):
            return True
        if isinstance(s, (ast.With, ast.AsyncWith)) and _terminates(s.body):
            # a context manager may swallow the exception, but not a return
            if _always_returns(s.body):
                return True
        if isinstance(s, ast.Try) and not s.finalbody:
            bt = _terminates(s.body) or (bool(s.orelse) and _terminates(s.orelse))
            if bt and all(_terminates(h.body) for h in s.handlers):
                return True
    return False


def _always_returns(stmts) -> bool:
    for s in stmts:
        if isinstance(s, ast.Return):
            return True
        if isinstance(s, ast.If) and s.orelse and _always_returns(s.body) and _always_returns(s.orelse):
            return True
    return False


def _simple_arg(e) -> bool:
    if isinstance(e, ast.Constant):
        return True
    if isinstance(e, ast.Name):
        return True
    if isinstance(e, ast.Attribute):
        return _simple_arg(e.value)
    if isinstance(e, ast.Subscript) and isinstance(e.slice, (ast.Constant, ast.Name)):
        return _simple_arg(e.value)
    return False


_PURE_CALLS = {"os.path.join", "os.path.dirname", "os.path.basename", "os.path.abspath", "os.path.normpath", "os.sep.join", "str", "len", "tuple", "os.fspath"}


def _pure_arg(e, depth=0) -> bool:
    """an expression without side effects whose repeated evaluation gives the same value: may be written out at every use of a parameter"""
    if depth > 4:
        return False
    if _simple_arg(e):
        return True
    if isinstance(e, ast.Call) and not e.keywords and ast.unparse(e.func) in _PURE_CALLS:
        return all(_pure_arg(a, depth + 1) for a in e.args)
    if isinstance(e, ast.BinOp):
        return _pure_arg(e.left, depth + 1) and _pure_arg(e.right, depth + 1)
    if isinstance(e, ast.Subscript):
        return _pure_arg(e.value, depth + 1) and _pure_arg(e.slice, depth + 1)
    if isinstance(e, (ast.Tuple, ast.List)):
        return all(_pure_arg(x, depth + 1) for x in e.elts)
    return False


def _stored_names(fn) -> Set[str]:
    out = set()
    for st in fn.body:
        for n in ast.walk(st):
            if isinstance(n, ast.Name) and isinstance(n.ctx, (ast.Store, ast.Del)):
                out.add(n.id)
            elif isinstance(n, (ast.FunctionDef, ast.AsyncFunctionDef, ast.ClassDef)):
                out.add(n.name)
            elif isinstance(n, ast.ExceptHandler) and n.name:
                out.add(n.name)
            elif isinstance(n, (ast.Import, ast.ImportFrom)):
                for a in n.names:
                    out.add((a.asname or a.name).split(".")[0])
            elif isinstance(n, ast.arg):
                out.add(n.arg)
    return out


def _all_names(node) -> Set[str]:
    out = set()
    for n in ast.walk(node):
        if isinstance(n, ast.Name):
            out.add(n.id)
        elif isinstance(n, ast.arg):
            out.add(n.arg)
        elif isinstance(n, ast.ExceptHandler) and n.name:
            out.add(n.name)
        elif isinstance(n, (ast.FunctionDef, ast.AsyncFunctionDef, ast.ClassDef)):
            out.add(n.name)
    return out


class _YieldToAppend(ast.NodeTransformer):
    """statement-level `yield e` -> acc.append(e), `yield from it` -> acc.extend(it)"""

    def __init__(self, acc):
        self.acc = acc

    def visit_FunctionDef(self, node):
        return node
    visit_AsyncFunctionDef = visit_FunctionDef

    def visit_Lambda(self, node):
        return node

    def visit_Expr(self, node):
        v = node.value
        if isinstance(v, ast.Yield):
            arg = v.value if v.value is not None else ast.copy_location(ast.Constant(value=None), v)
            call = ast.Call(func=ast.Attribute(value=ast.Name(id=self.acc, ctx=ast.Load()), attr="append", ctx=ast.Load()), args=[arg], keywords=[])
            return ast.copy_location(ast.Expr(value=ast.copy_location(call, v)), node)
        if isinstance(v, ast.YieldFrom):
            call = ast.Call(func=ast.Attribute(value=ast.Name(id=self.acc, ctx=ast.Load()), attr="extend", ctx=ast.Load()), args=[v.value], keywords=[])
            return ast.copy_location(ast.Expr(value=ast.copy_location(call, v)), node)
        return node


class _Rename(ast.NodeTransformer):
    """rename plain names (locals) and substitute parameters by expressions"""

    def __init__(self, ren: Dict[str, str], subst: Dict[str, ast.expr]):
        self.ren = ren
        self.subst = subst

    def visit_Name(self, node):
        if node.id in self.subst and isinstance(node.ctx, ast.Load):
            return ast.copy_location(copy.deepcopy(self.subst[node.id]), node)
        if node.id in self.ren:
            node.id = self.ren[node.id]
        return node

    def visit_arg(self, node):
        if node.arg in self.ren:
            node.arg = self.ren[node.arg]
        return node

    def visit_ExceptHandler(self, node):
        if node.name and node.name in self.ren:
            node.name = self.ren[node.name]
        self.generic_visit(node)
        return node

    def visit_FunctionDef(self, node):
        if node.name in self.ren:
            node.name = self.ren[node.name]
        self.generic_visit(node)
        return node

    visit_AsyncFunctionDef = visit_FunctionDef

    def visit_Nonlocal(self, node):
        return None

    def visit_Global(self, node):
        return node


# ---------------------------------------------------------------------------------------------
# the inliner
# ---------------------------------------------------------------------------------------------

def _stmt_blocks(fn):
    """statement lists of a function (not those of nested functions / classes)"""
    todo = [fn]
    while todo:
        n = todo.pop()
        for fld in ("body", "orelse", "finalbody"):
            blk = getattr(n, fld, None)
            if isinstance(blk, list) and blk and isinstance(blk[0], ast.stmt):
                yield blk
                todo.extend(x for x in blk if not isinstance(x, (ast.FunctionDef, ast.AsyncFunctionDef, ast.ClassDef)))
        for h in getattr(n, "handlers", []) or []:
            yield h.body
            todo.extend(x for x in h.body if not isinstance(x, (ast.FunctionDef, ast.AsyncFunctionDef, ast.ClassDef)))


class ModuleInliner:
    def __init__(self, modname: str, tree: ast.Module, known: Set[str], pkg: Optional[Dict[str, "ModuleInliner"]] = None, is_pkg: bool = False):
        self.modname = modname
        self.tree = tree
        self.known = known
        self.pkg = pkg if pkg is not None else {}
        self.is_pkg = is_pkg
        # local name -> (absolute module, original name or None for `import module`)
        self.imports: Dict[str, Tuple[str, Optional[str]]] = {}
        parts = modname.split(".")
        for n in ast.walk(tree):
            if isinstance(n, ast.ImportFrom):
                if n.level:
                    base = parts if is_pkg else parts[:-1]
                    if n.level > 1:
                        base = base[: len(base) - (n.level - 1)]
                    mod = ".".join(base + ([n.module] if n.module else []))
                else:
                    mod = n.module or ""
                for a in n.names:
                    self.imports[a.asname or a.name] = (mod, a.name)
            elif isinstance(n, ast.Import):
                for a in n.names:
                    self.imports[a.asname or a.name.split(".")[0]] = (a.name if a.asname else a.name.split(".")[0], None)
        self.module_bound = set(self.imports)
        for st in tree.body:
            if isinstance(st, (ast.FunctionDef, ast.AsyncFunctionDef, ast.ClassDef)):
                self.module_bound.add(st.name)
            elif isinstance(st, ast.Assign):
                for t in st.targets:
                    for x in ast.walk(t):
                        if isinstance(x, ast.Name):
                            self.module_bound.add(x.id)
            elif isinstance(st, ast.AnnAssign) and isinstance(st.target, ast.Name):
                self.module_bound.add(st.target.id)
        self.counter = 0
        self.log: List[str] = []
        self.defs = enumerate_defs(modname, tree)
        self.new = [d for d in self.defs if d.qual not in known and not self._under_known_nested(d)]
        # nested functions of a *new* function are part of it, not helpers of their own... unless called by it (then they are inlined into it first)
        self.expanded: Dict[int, int] = {}

    def _under_known_nested(self, d: Def) -> bool:
        return False

    # -- resolution ----------------------------------------------------------
    def _resolve(self, call: ast.Call, caller: Def, allow_decorated: bool = False) -> Optional[Tuple[Def, Optional[ast.expr], bool]]:
        """-> (helper def, receiver expression to bind to its first parameter or None, skip_first_param)"""
        f = call.func
        if isinstance(f, ast.Name):
            # nested helper defined in an enclosing function (innermost first), then module level
            cur = caller
            while cur is not None:
                for d in self.new:
                    if d.kind == "nested" and d.parent is cur and d.node.name == f.id:
                        return d, None, False
                cur = cur.parent
            for d in self.new:
                if d.kind == "module" and d.node.name == f.id:
                    return d, None, False
            # a new helper of another signac module, imported by name
            imp = self.imports.get(f.id)
            if imp and imp[1] and imp[0] in self.pkg and imp[0] != self.modname:
                other = self.pkg[imp[0]]
                for d in other.new:
                    if d.kind == "module" and d.node.name == imp[1] and self._foreign_ok(d, other):
                        return d, None, False
            return None
        if isinstance(f, ast.Attribute):
            top = caller
            while top.parent is not None:
                top = top.parent
            kcls = top.cls
            recv = f.value
            for d in (self.new if kcls is not None else []):
                if d.kind == "method" and d.cls is kcls and d.node.name == f.attr:
                    decs = [ast.unparse(x) for x in d.node.decorator_list]
                    first = top.node.args.args[0].arg if top.node.args.args else None
                    is_self = isinstance(recv, ast.Name) and recv.id == first and caller is top or (isinstance(recv, ast.Name) and recv.id == first)
                    is_cls_name = isinstance(recv, ast.Name) and recv.id == kcls.name
                    is_type_self = isinstance(recv, ast.Call) and isinstance(recv.func, ast.Name) and recv.func.id == "type" and len(recv.args) == 1
                    if allow_decorated and any(x in ("contextmanager", "contextlib.contextmanager") for x in decs):
                        if is_self:
                            return d, recv, True
                        return None
                    if "staticmethod" in decs:
                        if is_self or is_cls_name or is_type_self:
                            return d, None, False
                        return None
                    if "classmethod" in decs:
                        if is_cls_name or is_type_self:
                            return d, recv, True
                        if is_self:
                            topdecs = [ast.unparse(x) for x in top.node.decorator_list]
                            if "classmethod" in topdecs:
                                return d, recv, True
                            return d, ast.Call(func=ast.Name(id="type", ctx=ast.Load()), args=[recv], keywords=[]), True
                        return None
                    if is_self:
                        return d, recv, True
                    return None
            # a new method called on another object (`handle._rekey(x)`): the name identifies it if it is unique among the new methods of the package
            cands = []
            for m in (self.pkg.values() or [self]):
                for d in m.new:
                    if d.kind == "method" and d.node.name == f.attr:
                        cands.append((m, d))
            if len(cands) == 1 and _simple_arg(recv):
                m, d = cands[0]
                decs = [ast.unparse(x) for x in d.node.decorator_list]
                # no known method of that name anywhere (the receiver could be of another type)
                known_same = any(q.endswith("." + f.attr) for q in self.known)
                if not decs and not known_same and (m is self or self._foreign_ok(d, m)):
                    return d, recv, True
        return None

    def _owner(self, d: Def) -> "ModuleInliner":
        for m in self.pkg.values():
            if any(d is x for x in m.defs):
                return m
        return self

    def _foreign_ok(self, d: Def, other: "ModuleInliner") -> bool:
        """The module-level names the foreign helper uses mean the same thing here (same import / imported from its module), or can be imported."""
        import builtins
        stored = _stored_names(d.node)
        free = {n.id for st in d.node.body for n in ast.walk(st) if isinstance(n, ast.Name)} - stored - set(dir(builtins))
        todo = []
        for nm in sorted(free):
            if nm not in other.module_bound:
                continue  # not a module-level name of the helper's module (builtin-like or undefined): leave
            src = other.imports.get(nm)
            mine = self.imports.get(nm)
            if src is not None:
                if mine == src:
                    continue
                if nm in self.module_bound:
                    return False
                todo.append(("import", nm, src))
            else:
                want = (other.modname, nm)
                if mine == want:
                    continue
                if nm in self.module_bound:
                    return False
                todo.append(("import", nm, want))
        d_todo = getattr(self, "_pending_imports", {})
        d_todo[id(d)] = todo
        self._pending_imports = d_todo
        return True

    def _apply_pending_imports(self, d: Def):
        for (_k, nm, (mod, orig)) in getattr(self, "_pending_imports", {}).get(id(d), []):
            if nm in self.module_bound:
                continue
            if orig is None:
                node = ast.Import(names=[ast.alias(name=mod, asname=None if mod.split(".")[0] == nm and "." not in mod else nm)])
            else:
                node = ast.ImportFrom(module=mod, names=[ast.alias(name=orig, asname=None if orig == nm else nm)], level=0)
            node.lineno = node.end_lineno = 1
            node.col_offset = node.end_col_offset = 0
            pos = 1 if (self.tree.body and isinstance(self.tree.body[0], ast.Expr) and isinstance(getattr(self.tree.body[0], "value", None), ast.Constant)
                        and isinstance(self.tree.body[0].value.value, str)) else 0
            self.tree.body.insert(pos, node)
            self.imports[nm] = (mod, orig)
            self.module_bound.add(nm)
            self.log.append(f"{self.modname}: import of {nm} from {mod} added for an expanded helper")

    # -- eligibility ---------------------------------------------------------
    def _eligible(self, d: Def) -> bool:
        fn = d.node
        if isinstance(fn, ast.AsyncFunctionDef):
            return False
        a = fn.args
        if a.vararg or a.kwarg or a.posonlyargs:
            return False
        decs = [ast.unparse(x) for x in fn.decorator_list]
        if any(x not in ("staticmethod", "classmethod") for x in decs):
            return False
        for n in ast.walk(fn):
            if isinstance(n, ast.Global):
                return False
            if isinstance(n, ast.Call):
                g = n.func
                if isinstance(g, ast.Name) and g.id == fn.name:
                    return False
                if isinstance(g, ast.Attribute) and g.attr == fn.name:
                    return False
        return True

    # -- argument binding ------------------------------------------------------
    def _bind(self, d: Def, call: ast.Call, recv, skip_first) -> Optional[Dict[str, ast.expr]]:
        fn = d.node
        params = [p.arg for p in fn.args.args]
        defaults = [None] * (len(params) - len(fn.args.defaults)) + list(fn.args.defaults)
        kwonly = [p.arg for p in fn.args.kwonlyargs]
        kwdef = dict(zip(kwonly, fn.args.kw_defaults))
        bound: Dict[str, ast.expr] = {}
        pos = list(params)
        if skip_first:
            if not pos:
                return None
            bound[pos[0]] = recv
            pos = pos[1:]
        if any(isinstance(x, ast.Starred) for x in call.args) or any(k.arg is None for k in call.keywords):
            return None
        if len(call.args) > len(pos):
            return None
        for p, a in zip(pos, call.args):
            bound[p] = a
        for k in call.keywords:
            if k.arg in bound or (k.arg not in params and k.arg not in kwonly):
                return None
            bound[k.arg] = k.value
        for p, dflt in zip(params, defaults):
            if p not in bound:
                if dflt is None:
                    return None
                bound[p] = dflt
        for p in kwonly:
            if p not in bound:
                if kwdef.get(p) is None:
                    return None
                bound[p] = kwdef[p]
        return bound

    # -- body preparation --------------------------------------------------------
    def _prepare(self, d: Def, call: ast.Call, caller: Def, recv, skip_first) -> Tuple[List[ast.stmt], List[ast.stmt]]:
        """-> (pre-assignments, copied + renamed body of the helper)"""
        fn = d.node
        bound = self._bind(d, call, recv, skip_first)
        if bound is None:
            raise Bail("arguments")
        body = [copy.deepcopy(s) for s in fn.body]
        if body and isinstance(body[0], ast.Expr) and isinstance(body[0].value, ast.Constant) and isinstance(body[0].value.value, str):
            body = body[1:]
        if not body:
            body = [ast.copy_location(ast.Pass(), fn)]
        stored = _stored_names(fn) - {p.arg for p in fn.args.args + fn.args.kwonlyargs}
        rebound = set()
        for st in fn.body:
            for n in ast.walk(st):
                if isinstance(n, ast.Name) and isinstance(n.ctx, (ast.Store, ast.Del)) and n.id in bound:
                    rebound.add(n.id)
                elif isinstance(n, ast.arg) and n.arg in bound:
                    rebound.add(n.arg)  # shadowed by a nested function / lambda parameter: do not substitute
                elif isinstance(n, ast.ExceptHandler) and n.name in bound:
                    rebound.add(n.name)
        caller_names = _all_names(caller.node)
        top = caller
        while top.parent is not None:
            top = top.parent
            caller_names |= _all_names(top.node)
        for a in bound.values():
            caller_names |= _all_names(a)
        # free names of the helper that are locals of the caller would be captured
        locals_of_helper = stored | set(bound)
        free = {n.id for st in fn.body for n in ast.walk(st) if isinstance(n, ast.Name)} - locals_of_helper
        caller_stored = _stored_names(caller.node)
        if d.kind != "nested" and (free & caller_stored):
            raise Bail("capture of " + ",".join(sorted(free & caller_stored)))
        ren: Dict[str, str] = {}
        subst: Dict[str, ast.expr] = {}
        pre: List[ast.stmt] = []

        def fresh(nm):
            self.counter += 1
            cand = f"{nm}_h{self.counter}"
            while cand in caller_names:
                self.counter += 1
                cand = f"{nm}_h{self.counter}"
            caller_names.add(cand)
            return cand

        order = [p.arg for p in fn.args.args + fn.args.kwonlyargs]
        for p in order:
            a = bound[p]
            if p not in rebound and _simple_arg(a):
                subst[p] = a
            else:
                nm = p if p not in caller_names else fresh(p)
                caller_names.add(nm)
                if nm != p:
                    ren[p] = nm
                asg = ast.Assign(targets=[ast.Name(id=nm, ctx=ast.Store())], value=copy.deepcopy(a))
                pre.append(ast.copy_location(asg, call))
        for nm in sorted(stored):
            if nm in caller_names:
                ren[nm] = fresh(nm)
        r = _Rename(ren, subst)
        body = [r.visit(s) for s in body]
        body = [s for s in body if s is not None]
        for s in pre:
            ast.fix_missing_locations(s)
        return pre, body

    # -- return conversion --------------------------------------------------------
    def _conv(self, stmts: List[ast.stmt], assign, in_loop=False) -> Tuple[List[ast.stmt], bool]:
        """Rewrite `return e` into assign(e) (+ break inside a loop). Statements that follow a statement containing a return
        are converted *together with* the branch that falls through into them (if/else, try/except/else), so that a converted
        return never runs into code it used to skip.  -> (statements, every path ends in a return/raise of the helper)"""
        out: List[ast.stmt] = []
        for i, s in enumerate(stmts):
            if isinstance(s, ast.Return):
                out += assign(s)
                if in_loop:
                    out.append(ast.copy_location(ast.Break(), s))
                return out, True
            if isinstance(s, ast.Raise):
                out.append(s)
                return out, True
            if not _contains_return(s):
                out.append(s)
                if in_loop and isinstance(s, (ast.Break, ast.Continue)):
                    return out, False
                if _terminates([s]):
                    return out, True  # every path through s raises: what follows is dead
                continue
            rest = stmts[i + 1:]
            small = len(rest) == 1 and isinstance(rest[0], ast.Return) and (rest[0].value is None or _simple_arg(rest[0].value))
            if isinstance(s, ast.If):
                bt, ot = _terminates(s.body), bool(s.orelse) and _terminates(s.orelse)
                if not rest or (bt and ot):
                    b, bt2 = self._conv(s.body, assign, in_loop)
                    o, ot2 = self._conv(s.orelse, assign, in_loop) if s.orelse else ([], False)
                    s.body, s.orelse = b or [ast.copy_location(ast.Pass(), s)], o
                    out.append(s)
                    return out, bt2 and ot2
                if bt and not ot:
                    b, _ = self._conv(s.body, assign, in_loop)
                    o, t2 = self._conv(list(s.orelse) + rest, assign, in_loop)
                    s.body, s.orelse = b, o
                    out.append(s)
                    return out, t2
                if ot and not bt:
                    o, _ = self._conv(s.orelse, assign, in_loop)
                    b, t2 = self._conv(list(s.body) + rest, assign, in_loop)
                    s.body, s.orelse = b, o
                    out.append(s)
                    return out, t2
                if small:
                    b, t1 = self._conv(list(s.body) + [copy.deepcopy(rest[0])], assign, in_loop)
                    o, t2 = self._conv(list(s.orelse) + [copy.deepcopy(rest[0])], assign, in_loop)
                    s.body, s.orelse = b, o
                    out.append(s)
                    return out, t1 and t2
                raise Bail("return in a branch that also falls through")
            if isinstance(s, (ast.With, ast.AsyncWith)):
                bt = _terminates(s.body)
                if rest and not bt:
                    raise Bail("return inside with, statements follow")
                b, bt2 = self._conv(s.body, assign, in_loop)
                s.body = b
                out.append(s)
                return out, bt2
            if isinstance(s, ast.Try):
                if s.finalbody and _contains(s.finalbody, ast.Return):
                    raise Bail("return in finally")
                body_t = _terminates(s.body) or (bool(s.orelse) and _terminates(s.orelse))
                h_t = [_terminates(h.body) for h in s.handlers]
                falls = ([] if body_t else ["body"]) + [k for k, t in enumerate(h_t) if not t]
                if not rest or not falls:
                    b, bt2 = self._conv(s.body, assign, in_loop)
                    e, et2 = self._conv(s.orelse, assign, in_loop) if s.orelse else ([], False)
                    hs = [self._conv(h.body, assign, in_loop) for h in s.handlers]
                    s.body, s.orelse = b, e
                    for h, (hb, _) in zip(s.handlers, hs):
                        h.body = hb
                    out.append(s)
                    return out, (bt2 or et2) and all(t for _, t in hs)
                if s.finalbody:
                    raise Bail("return inside try/finally, statements follow")
                if "body" in falls and any(_contains_return(x) for x in s.body):
                    raise Bail("try body returns on some paths and falls through on others")
                if len(falls) > 1 and not small:
                    raise Bail("return inside try with several fall-through branches")
                term_all = True
                new_body, _ = self._conv(s.body, assign, in_loop)
                if "body" in falls:
                    new_else, t2 = self._conv(list(s.orelse) + [copy.deepcopy(x) for x in rest], assign, in_loop)
                    term_all = term_all and t2
                else:
                    new_else, _ = self._conv(s.orelse, assign, in_loop) if s.orelse else ([], False)
                new_h = []
                for k, h in enumerate(s.handlers):
                    if k in falls:
                        hb, t2 = self._conv(list(h.body) + [copy.deepcopy(x) for x in rest], assign, in_loop)
                        term_all = term_all and t2
                    else:
                        hb, _ = self._conv(h.body, assign, in_loop)
                    new_h.append(hb)
                s.body, s.orelse = new_body, new_else
                for h, hb in zip(s.handlers, new_h):
                    h.body = hb
                out.append(s)
                return out, term_all
            if isinstance(s, (ast.For, ast.While, ast.AsyncFor)):
                if in_loop:
                    raise Bail("return in nested loop")
                if s.orelse or any(isinstance(n, ast.Break) for n in _walk_loop_level(s)):
                    raise Bail("loop with break/else contains return")
                b, _ = self._conv(s.body, assign, True)
                s.body = b
                r, rt = self._conv(rest, assign, in_loop) if rest else ([], False)
                s.orelse = r
                out.append(s)
                return out, rt
            raise Bail("return inside " + type(s).__name__)
        return out, False

    # -- one call site ---------------------------------------------------------------
    def _expand_stmt(self, st: ast.stmt, caller: Def) -> Optional[List[ast.stmt]]:
        call = None
        form = None
        if isinstance(st, ast.Expr) and isinstance(st.value, ast.Call):
            call, form = st.value, "expr"
        elif isinstance(st, ast.Expr) and isinstance(st.value, ast.YieldFrom) and isinstance(st.value.value, ast.Call):
            call, form = st.value.value, "yieldfrom"
        elif isinstance(st, ast.Assign) and len(st.targets) == 1 and isinstance(st.value, ast.Call):
            call, form = st.value, "assign"
        elif isinstance(st, ast.AnnAssign) and st.value is not None and isinstance(st.value, ast.Call) and isinstance(st.target, ast.Name):
            call, form = st.value, "annassign"
        elif isinstance(st, ast.Return) and isinstance(st.value, ast.Call):
            call, form = st.value, "return"
        elif isinstance(st, ast.Raise) and isinstance(st.exc, ast.Call) and st.cause is None:
            # `raise helper(...)`: the helper chooses the exception; each `return V` of the helper is `raise V` here
            call, form = st.exc, "raise"
        # x = list(gen_helper(...)): the generator is drained on the spot -> x = []; body with `yield e` -> x.append(e)
        if form == "assign" and isinstance(st.targets[0], ast.Name) and isinstance(call.func, ast.Name) and call.func.id == "list" and len(call.args) == 1 \
                and not call.keywords and isinstance(call.args[0], ast.Call):
            res0 = self._resolve(call.args[0], caller)
            if res0 is not None and res0[0] is not caller and self._eligible(res0[0]) and _is_generator(res0[0].node):
                call, form = call.args[0], "drain"
        if call is None:
            return None
        res = self._resolve(call, caller)
        if res is None:
            return None
        d, recv, skip = res
        if d is caller or not self._eligible(d):
            return None
        gen = _is_generator(d.node)
        if gen != (form in ("yieldfrom", "drain")):
            return None
        try:
            pre, body = self._prepare(d, call, caller, recv, skip)
            if form == "assign" and isinstance(st.targets[0], ast.Name):
                body = self._adopt_target(body, st.targets[0].id, pre)
            if form == "drain":
                acc = st.targets[0].id
                if any(isinstance(n, ast.Name) and n.id == acc for s2 in body + pre for n in ast.walk(s2)):
                    raise Bail("accumulator name used by the generator")
                body = [_YieldToAppend(acc).visit(s2) for s2 in body]
                if any(isinstance(n, (ast.Yield, ast.YieldFrom)) for s2 in body for n in _walk_no_nested(s2)):
                    raise Bail("yield used as an expression")
                init = ast.copy_location(ast.Assign(targets=[ast.Name(id=acc, ctx=ast.Store())], value=ast.List(elts=[], ctx=ast.Load())), st)

                def assign(r):
                    return [ast.copy_location(ast.Pass(), r)]
                conv, _ = self._conv(body, assign)
                new = pre + [init] + conv
            elif form == "raise":
                if not _terminates(body):
                    raise Bail("helper of a raise can fall off its end")

                def assign(r):
                    v = r.value if r.value is not None else ast.copy_location(ast.Constant(value=None), r)
                    return [ast.copy_location(ast.Raise(exc=v, cause=None), r)]
                conv, _ = self._conv(body, assign)
                new = pre + conv
            elif form == "return":
                if not _terminates(body):
                    body.append(ast.copy_location(ast.Return(value=ast.copy_location(ast.Constant(value=None), st)), st))
                new = pre + body
            else:
                if form in ("assign", "annassign"):
                    target = st.targets[0] if form == "assign" else st.target

                    def assign(r, target=target):
                        v = r.value if r.value is not None else ast.copy_location(ast.Constant(value=None), r)
                        if isinstance(v, ast.Name) and isinstance(target, ast.Name) and v.id == target.id:
                            return [ast.copy_location(ast.Pass(), r)]
                        return [ast.copy_location(ast.Assign(targets=[copy.deepcopy(target)], value=v), r)]
                else:
                    def assign(r):
                        if r.value is not None and any(isinstance(n, (ast.Call, ast.Await, ast.Yield, ast.YieldFrom, ast.NamedExpr)) for n in ast.walk(r.value)):
                            return [ast.copy_location(ast.Expr(value=r.value), r)]
                        return [ast.copy_location(ast.Pass(), r)]
                if form in ("assign", "annassign") and not _terminates(body):
                    # falling off the end returns None: made explicit, so that the conversion nests it into the fall-through branches
                    body.append(ast.copy_location(ast.Return(value=None), st))
                conv, term = self._conv(body, assign)
                new = pre + conv
            new = [s for s in new if s is not None] or [ast.copy_location(ast.Pass(), st)]
            for s in new:
                ast.fix_missing_locations(s)
            owner = self._owner(d)
            owner.expanded[id(d)] = owner.expanded.get(id(d), 0) + 1
            if owner is not self:
                self._apply_pending_imports(d)
                self.expanded[id(d)] = self.expanded.get(id(d), 0) + 1
            self.log.append(f"{caller.qual} <- {d.qual} ({form})")
            return new
        except Bail as e:
            self.log.append(f"{caller.qual} :: {d.qual} not expanded: {e}")
            return None

    def _adopt_target(self, body, tname, pre):
        """`x = helper()` where every return of the helper hands back the same plain local `r`: call that local `x` from the
        start (the code as it read before the extraction) instead of ending with `x = r`."""
        rets = [n for s in body for n in _walk_no_nested(s) if isinstance(n, ast.Return)]
        if not rets or not all(isinstance(r.value, ast.Name) for r in rets):
            return body
        names = {r.value.id for r in rets}
        if len(names) != 1:
            return body
        r = names.pop()
        stored = {n.id for s in body for n in ast.walk(s) if isinstance(n, ast.Name) and isinstance(n.ctx, ast.Store)}
        if r not in stored or r == tname:
            return body
        # the target name must not be used by the helper body (it would be clobbered) nor by the argument bindings
        used = {n.id for s in body + pre for n in ast.walk(s) if isinstance(n, ast.Name)}
        if tname in used:
            return body
        # `r` must be a local of the helper, not one of the caller's names that were substituted for parameters
        return [_Rename({r: tname}, {}).visit(s) for s in body]

    # -- expression helpers --------------------------------------------------------------
    def _expr_helper(self, d: Def) -> Optional[ast.expr]:
        body = list(d.node.body)
        if body and isinstance(body[0], ast.Expr) and isinstance(body[0].value, ast.Constant) and isinstance(body[0].value.value, str):
            body = body[1:]
        if len(body) == 1 and isinstance(body[0], ast.Return) and body[0].value is not None:
            e = body[0].value
            if any(isinstance(n, (ast.Lambda, ast.Yield, ast.YieldFrom, ast.Await, ast.NamedExpr)) for n in ast.walk(e)):
                return None
            return e
        return None

    def _expand_exprs(self, caller: Def):
        """substitute calls of single-expression helpers anywhere in the caller's own expressions"""
        outer = self

        class T(ast.NodeTransformer):
            def visit_FunctionDef(self, node):
                return node
            visit_AsyncFunctionDef = visit_FunctionDef

            def visit_ClassDef(self, node):
                return node

            def visit_Lambda(self, node):
                return node

            def visit_Call(self, node):
                self.generic_visit(node)
                res = outer._resolve(node, caller)
                if res is None:
                    return node
                d, recv, skip = res
                if d is caller or not outer._eligible(d):
                    return node
                e = outer._expr_helper(d)
                if e is None:
                    return node
                bound = outer._bind(d, node, recv, skip)
                if bound is None:
                    return node
                uses = {}
                for n in ast.walk(e):
                    if isinstance(n, ast.Name) and n.id in bound:
                        uses[n.id] = uses.get(n.id, 0) + 1
                    elif isinstance(n, ast.comprehension):
                        # comprehension variables that shadow a parameter: give up
                        for t in ast.walk(n.target):
                            if isinstance(t, ast.Name) and t.id in bound:
                                return node
                for p, a in bound.items():
                    if not _pure_arg(a) and uses.get(p, 0) != 1:
                        return node
                # names bound inside the expression (comprehension targets) must not collide with argument names
                inner = {t.id for n in ast.walk(e) if isinstance(n, ast.comprehension) for t in ast.walk(n.target) if isinstance(t, ast.Name)}
                if any(inner & _all_names(a) for a in bound.values()):
                    return node
                new = _Rename({}, bound).visit(copy.deepcopy(e))
                owner = outer._owner(d)
                if owner is not outer:
                    outer._apply_pending_imports(d)
                    owner.expanded[id(d)] = owner.expanded.get(id(d), 0) + 1
                outer.expanded[id(d)] = outer.expanded.get(id(d), 0) + 1
                outer.log.append(f"{caller.qual} <- {d.qual} (expression)")
                return ast.copy_location(new, node)

        fn = caller.node
        t = T()
        fn.body = [t.visit(s) for s in fn.body]
        fn.args.defaults = fn.args.defaults

    # -- hoisting of tests ----------------------------------------------------------------
    def _is_stmt_helper_call(self, t, caller) -> bool:
        if isinstance(t, ast.UnaryOp) and isinstance(t.op, ast.Not):
            t = t.operand
        if not isinstance(t, ast.Call):
            return False
        res = self._resolve(t, caller)
        return res is not None and res[0] is not caller and self._eligible(res[0]) and self._expr_helper(res[0]) is None and not _is_generator(res[0].node)

    def _comp_to_loops(self, st: ast.stmt, caller: Def) -> Optional[List[ast.stmt]]:
        """`x = [E for a in A for b in helper(a)]` / `return [helper(a) for a in A]` where `helper` is a new statement helper: the
        comprehension is written as the accumulating loops it abbreviates, with the helper call as the whole right-hand side of an
        assignment (the form the expansion understands). Evaluation order is that of the comprehension."""
        if isinstance(st, ast.Assign) and len(st.targets) == 1 and isinstance(st.targets[0], ast.Name):
            val, acc = st.value, st.targets[0].id
        elif isinstance(st, ast.Return) and st.value is not None:
            self.counter += 1
            val, acc = st.value, f"_inl_c{self.counter}"
        else:
            return None
        conv = None
        if isinstance(val, ast.Call) and isinstance(val.func, ast.Name) and val.func.id in ("list", "set", "tuple", "sorted") and len(val.args) == 1 and not val.keywords \
                and isinstance(val.args[0], (ast.GeneratorExp, ast.ListComp)):
            conv, val = val.func.id, val.args[0]
        if not isinstance(val, (ast.ListComp, ast.SetComp, ast.GeneratorExp)) or (isinstance(val, ast.GeneratorExp) and conv is None):
            return None
        gens = val.generators
        if any(g.is_async for g in gens):
            return None
        in_iter = [g for g in gens if self._is_stmt_helper_call(g.iter, caller) and not (isinstance(g.iter, ast.UnaryOp))]
        in_elt = self._is_stmt_helper_call(val.elt, caller) and not isinstance(val.elt, ast.UnaryOp)
        if not in_iter and not in_elt:
            return None
        if isinstance(st, ast.Assign) and any(isinstance(n, ast.Name) and n.id == acc for n in ast.walk(val)):
            return None
        is_set = isinstance(val, ast.SetComp) or conv == "set"

        def nm(i, c):
            return ast.copy_location(ast.Name(id=i, ctx=c), st)
        elt = val.elt
        inner: List[ast.stmt] = []
        if in_elt:
            self.counter += 1
            tmp = f"_inl_e{self.counter}"
            inner.append(ast.copy_location(ast.Assign(targets=[nm(tmp, ast.Store())], value=elt), st))
            elt = nm(tmp, ast.Load())
        inner.append(ast.copy_location(ast.Expr(value=ast.copy_location(ast.Call(
            func=ast.copy_location(ast.Attribute(value=nm(acc, ast.Load()), attr="add" if is_set else "append", ctx=ast.Load()), st), args=[elt], keywords=[]), st)), st))
        for g in reversed(gens):
            for t in reversed(g.ifs):
                inner = [ast.copy_location(ast.If(test=t, body=inner, orelse=[]), st)]
            inner = [ast.copy_location(ast.For(target=g.target, iter=g.iter, body=inner, orelse=[], type_comment=None), st)]
        init = ast.copy_location(ast.Call(func=nm("set", ast.Load()), args=[], keywords=[]), st) if is_set else ast.copy_location(ast.List(elts=[], ctx=ast.Load()), st)
        res = [ast.copy_location(ast.Assign(targets=[nm(acc, ast.Store())], value=init), st)] + inner
        fin = nm(acc, ast.Load())
        if conv in ("tuple", "sorted"):
            fin = ast.copy_location(ast.Call(func=nm(conv, ast.Load()), args=[fin], keywords=[]), st)
            res.append(ast.copy_location(ast.Assign(targets=[nm(acc, ast.Store())], value=fin), st))
            fin = nm(acc, ast.Load())
        if isinstance(st, ast.Return):
            res.append(ast.copy_location(ast.Return(value=fin), st))
        for s2 in res:
            ast.fix_missing_locations(s2)
        self.log.append(f"{caller.qual}: comprehension over a new helper written as loops")
        return res

    def _hoist_tests(self, stmts: List[ast.stmt], caller: Def) -> List[ast.stmt]:
        pre = []
        for st in stmts:
            new = self._comp_to_loops(st, caller)
            pre.extend(new if new is not None else [st])
        stmts = pre
        out = []
        for st in stmts:
            # `for t in helper(...)`: the iterable is evaluated once, before the loop -> `_inl_iN = helper(...); for t in _inl_iN`
            if isinstance(st, ast.For) and isinstance(st.iter, ast.Call) and self._is_stmt_helper_call(st.iter, caller):
                self.counter += 1
                nm = f"_inl_i{self.counter}"
                asg = ast.copy_location(ast.Assign(targets=[ast.Name(id=nm, ctx=ast.Store())], value=st.iter), st)
                ast.fix_missing_locations(asg)
                st.iter = ast.copy_location(ast.Name(id=nm, ctx=ast.Load()), st.iter)
                out.append(asg)
                out.append(st)
                continue
            # `if A and helper(): X` (no else)  ->  `if A: (if helper(): X)`, so that the call becomes the whole test of an if
            if isinstance(st, ast.If) and not st.orelse and isinstance(st.test, ast.BoolOp) and isinstance(st.test.op, ast.And):
                vals = st.test.values
                idx = [i for i, v in enumerate(vals) if i > 0 and self._is_stmt_helper_call(v, caller)]
                if idx:
                    i = idx[0]
                    left = vals[0] if i == 1 else ast.copy_location(ast.BoolOp(op=ast.And(), values=vals[:i]), st.test)
                    right = vals[i] if i == len(vals) - 1 else ast.copy_location(ast.BoolOp(op=ast.And(), values=vals[i:]), st.test)
                    inner = ast.copy_location(ast.If(test=right, body=st.body, orelse=[]), st)
                    st = ast.copy_location(ast.If(test=left, body=[inner], orelse=[]), st)
                    out.append(st)
                    continue
            if isinstance(st, ast.If) and isinstance(st.test, ast.BoolOp) and isinstance(st.test.op, ast.And) and self._is_stmt_helper_call(st.test.values[0], caller) and not st.orelse:
                vals = st.test.values
                right = vals[1] if len(vals) == 2 else ast.copy_location(ast.BoolOp(op=ast.And(), values=vals[1:]), st.test)
                inner = ast.copy_location(ast.If(test=right, body=st.body, orelse=[]), st)
                st = ast.copy_location(ast.If(test=vals[0], body=[inner], orelse=[]), st)
            if isinstance(st, ast.If):
                t = st.test
                neg = False
                if isinstance(t, ast.UnaryOp) and isinstance(t.op, ast.Not):
                    t, neg = t.operand, True
                if isinstance(t, ast.Call):
                    res = self._resolve(t, caller)
                    if res is not None and res[0] is not caller and self._eligible(res[0]) and self._expr_helper(res[0]) is None and not _is_generator(res[0].node):
                        self.counter += 1
                        nm = f"_inl_t{self.counter}"
                        asg = ast.copy_location(ast.Assign(targets=[ast.Name(id=nm, ctx=ast.Store())], value=t), st)
                        ast.fix_missing_locations(asg)
                        ref = ast.copy_location(ast.Name(id=nm, ctx=ast.Load()), t)
                        st.test = ast.copy_location(ast.UnaryOp(op=ast.Not(), operand=ref), st.test) if neg else ref
                        out.append(asg)
            out.append(st)
        return out

    # -- for loops over a new generator helper --------------------------------------------------------------------
    def _expand_for_gen(self, st: ast.stmt, caller: Def) -> Optional[List[ast.stmt]]:
        """`for T in gen(args): BODY` over a new generator helper of the shape  PREFIX; <one loop holding the yields>  (nothing after the loop, `return`
        only directly in that loop): the helper's code with every `yield E` replaced by `T = E; BODY` and every `return` by `break`. BODY runs exactly where
        the consumer would have run it; leaving BODY through `break` / `return` / an exception abandons the helper at the yield, which has no clean-up to do
        (no try / with around a yield). `continue` in BODY is accepted only when the yield is the last statement of the helper's loop body."""
        if not (isinstance(st, ast.For) and not st.orelse and isinstance(st.iter, ast.Call)):
            return None
        if not (isinstance(st.target, ast.Name) or (isinstance(st.target, (ast.Tuple, ast.List)) and all(isinstance(e, ast.Name) for e in st.target.elts))):
            return None
        res = self._resolve(st.iter, caller)
        if res is None:
            return None
        d, recv, skip = res
        if d is caller or not self._eligible(d) or not _is_generator(d.node):
            return None
        fn_body = [x for x in d.node.body if not (isinstance(x, ast.Expr) and isinstance(x.value, ast.Constant) and isinstance(x.value.value, str))]
        if not fn_body or not isinstance(fn_body[-1], (ast.While, ast.For)) or fn_body[-1].orelse:
            return None
        loop0 = fn_body[-1]
        if any(isinstance(n, (ast.Yield, ast.YieldFrom, ast.Return)) for s2 in fn_body[:-1] for n in _walk_no_nested(s2)):
            return None

        def check(stmts, depth_try):
            """yields are statements, not under try / with / a nested loop; returns are bare and not under a nested loop"""
            for s2 in stmts:
                if isinstance(s2, ast.Expr) and isinstance(s2.value, ast.Yield):
                    if depth_try:
                        return False
                    continue
                if isinstance(s2, ast.Return):
                    if s2.value is not None:
                        return False
                    continue
                if isinstance(s2, (ast.For, ast.While, ast.AsyncFor)):
                    if any(isinstance(n, (ast.Yield, ast.YieldFrom, ast.Return)) for n in _walk_no_nested(s2)):
                        return False
                    continue
                if isinstance(s2, (ast.FunctionDef, ast.AsyncFunctionDef, ast.ClassDef)):
                    continue
                if isinstance(s2, ast.If):
                    if any(isinstance(n, (ast.Yield, ast.YieldFrom)) for n in ast.walk(s2.test)):
                        return False
                    if not check(s2.body, depth_try) or not check(s2.orelse, depth_try):
                        return False
                    continue
                if isinstance(s2, (ast.Try, ast.With, ast.AsyncWith)):
                    blocks = [s2.body] + ([s2.orelse, s2.finalbody] + [h.body for h in s2.handlers] if isinstance(s2, ast.Try) else [])
                    for b in blocks:
                        if not check(b, True):
                            return False
                    continue
                if any(isinstance(n, (ast.Yield, ast.YieldFrom)) for n in _walk_no_nested(s2)):
                    return False
            return True
        if not check(loop0.body, False):
            return None
        if isinstance(loop0, ast.While) and any(isinstance(n, (ast.Yield, ast.YieldFrom)) for n in ast.walk(loop0.test)):
            return None
        n_yields = sum(1 for n in _walk_no_nested(loop0) if isinstance(n, ast.Yield))
        if n_yields == 0:
            return None
        # the consumer's body
        body_nodes_ = [n for s2 in st.body for n in _walk_no_nested(s2)]
        has_continue = False
        has_break = False

        def scan(stmts, in_loop):
            nonlocal has_continue, has_break
            for s2 in stmts:
                if isinstance(s2, ast.Continue) and not in_loop:
                    has_continue = True
                if isinstance(s2, ast.Break) and not in_loop:
                    has_break = True
                if isinstance(s2, (ast.FunctionDef, ast.AsyncFunctionDef, ast.ClassDef)):
                    continue
                for fld in ("body", "orelse", "finalbody"):
                    sub = getattr(s2, fld, None)
                    if isinstance(sub, list) and sub and isinstance(sub[0], ast.stmt):
                        scan(sub, in_loop or (isinstance(s2, (ast.For, ast.While)) and fld == "body"))
                for h in getattr(s2, "handlers", []) or []:
                    scan(h.body, in_loop)
        scan(st.body, False)
        if any(isinstance(n, (ast.Yield, ast.YieldFrom)) for n in body_nodes_):
            return None
        last = loop0.body[-1]
        yield_last = isinstance(last, ast.Expr) and isinstance(last.value, ast.Yield) and n_yields == 1
        if has_continue and not yield_last:
            return None
        if n_yields > 1 and len(st.body) > 3:
            return None         # the consumer's body would be duplicated
        try:
            pre, body = self._prepare(d, st.iter, caller, recv, skip)
        except Bail as e:
            self.log.append(f"{caller.qual} :: {d.qual} not expanded: {e}")
            return None
        tnames = [st.target.id] if isinstance(st.target, ast.Name) else [e.id for e in st.target.elts]
        tname = tnames[0] if isinstance(st.target, ast.Name) else None
        if any(isinstance(n, ast.Name) and n.id in tnames for s2 in body + pre for n in ast.walk(s2)):
            return None
        body_stored = _stored_names(ast.Module(body=list(st.body), type_ignores=[]))
        in_loop = {id(n) for n in ast.walk(st)}
        after = sorted(((n.lineno, n.col_offset, isinstance(n.ctx, ast.Load)) for n in ast.walk(caller.node)
                        if isinstance(n, ast.Name) and n.id in tnames and id(n) not in in_loop and getattr(n, "lineno", 0) > (getattr(st, "end_lineno", None) or st.lineno)))
        # the value the loop variable is left with is looked at afterwards (the next occurrence after the loop is a read)
        used_outside = bool(after) and after[0][2]

        class Y(ast.NodeTransformer):
            def visit_FunctionDef(self, node):
                return node
            visit_AsyncFunctionDef = visit_FunctionDef
            visit_Lambda = visit_FunctionDef

            def visit_Expr(self, node):
                if isinstance(node.value, ast.Yield):
                    val = node.value.value if node.value.value is not None else ast.copy_location(ast.Constant(value=None), node)
                    if tname is not None and isinstance(val, ast.Name) and val.id not in body_stored and tname not in body_stored and not used_outside:
                        # the loop variable is just another name for the helper's variable while the consumer's body runs
                        return [_Rename({tname: val.id}, {}).visit(copy.deepcopy(x)) for x in st.body]
                    asg = ast.copy_location(ast.Assign(targets=[copy.deepcopy(st.target)], value=val), node)
                    return [asg] + [copy.deepcopy(x) for x in st.body]
                return node

            def visit_Return(self, node):
                return ast.copy_location(ast.Break(), node)
        new_loop = Y().visit(body[-1])
        new = pre + body[:-1] + ([new_loop] if not isinstance(new_loop, list) else new_loop)
        for s2 in new:
            ast.fix_missing_locations(s2)
        owner = self._owner(d)
        owner.expanded[id(d)] = owner.expanded.get(id(d), 0) + 1
        if owner is not self:
            self._apply_pending_imports(d)
            self.expanded[id(d)] = self.expanded.get(id(d), 0) + 1
        self.log.append(f"{caller.qual} <- {d.qual} (for over generator)")
        return new

    # -- driver ---------------------------------------------------------------------------
    # -- generator based context managers ------------------------------------------------------------------------
    def _expand_with(self, st: ast.stmt, caller: Def) -> Optional[List[ast.stmt]]:
        """`with helper(args) as v: BODY` where the new helper is a @contextmanager generator with a single `yield E` statement:
        the helper's body with the yield replaced by `v = E; BODY` (an exception in BODY is raised at the yield, i.e. exactly there)."""
        if not isinstance(st, (ast.With,)) or len(st.items) != 1 or not isinstance(st.items[0].context_expr, ast.Call):
            return None
        call = st.items[0].context_expr
        res = self._resolve(call, caller, allow_decorated=True)
        if res is None:
            return None
        d, recv, skip = res
        fn = d.node
        decs = [ast.unparse(x) for x in fn.decorator_list]
        if d is caller or not decs or any(x not in ("contextmanager", "contextlib.contextmanager") for x in decs):
            return None
        a = fn.args
        if a.vararg or a.kwarg or a.posonlyargs or isinstance(fn, ast.AsyncFunctionDef):
            return None
        ys = [n for s2 in fn.body for n in _walk_no_nested(s2) if isinstance(n, (ast.Yield, ast.YieldFrom))]
        if len(ys) != 1 or not isinstance(ys[0], ast.Yield):
            return None
        if any(isinstance(n, ast.Return) and n.value is not None for s2 in fn.body for n in _walk_no_nested(s2)):
            return None
        try:
            pre, body = self._prepare(d, call, caller, recv, skip)
        except Bail as e:
            self.log.append(f"{caller.qual} :: {d.qual} (context manager) not expanded: {e}")
            return None
        target = st.items[0].optional_vars
        user_body = st.body
        done = [False]

        def place(stmts, in_loop=False):
            out = []
            for s2 in stmts:
                if isinstance(s2, ast.Expr) and isinstance(s2.value, ast.Yield):
                    if in_loop:
                        raise Bail("yield inside a loop")
                    if target is not None:
                        v = s2.value.value if s2.value.value is not None else ast.copy_location(ast.Constant(value=None), s2)
                        out.append(ast.copy_location(ast.Assign(targets=[copy.deepcopy(target)], value=v), s2))
                    elif s2.value.value is not None and any(isinstance(n, ast.Call) for n in ast.walk(s2.value.value)):
                        out.append(ast.copy_location(ast.Expr(value=s2.value.value), s2))
                    out.extend(user_body)
                    done[0] = True
                    continue
                if isinstance(s2, (ast.FunctionDef, ast.AsyncFunctionDef, ast.ClassDef)):
                    out.append(s2)
                    continue
                loop = isinstance(s2, (ast.For, ast.While, ast.AsyncFor))
                for fld in ("body", "orelse", "finalbody"):
                    sub = getattr(s2, fld, None)
                    if isinstance(sub, list) and sub and isinstance(sub[0], ast.stmt):
                        setattr(s2, fld, place(sub, in_loop or loop))
                for h in getattr(s2, "handlers", []) or []:
                    h.body = place(h.body, in_loop)
                out.append(s2)
            return out
        try:
            new_body = place(body)
        except Bail as e:
            self.log.append(f"{caller.qual} :: {d.qual} (context manager) not expanded: {e}")
            return None
        if not done[0]:
            return None
        # a bare `return` of the helper would leave the caller: only fall-through helpers are expanded
        if any(isinstance(n, ast.Return) for s2 in body for n in _walk_no_nested(s2)):
            return None
        new = pre + new_body
        for s2 in new:
            ast.fix_missing_locations(s2)
        owner = self._owner(d)
        owner.expanded[id(d)] = owner.expanded.get(id(d), 0) + 1
        if owner is not self:
            self._apply_pending_imports(d)
            self.expanded[id(d)] = self.expanded.get(id(d), 0) + 1
        self.log.append(f"{caller.qual} <- {d.qual} (with)")
        return new

    # -- threading of hoisted boolean results ------------------------------------------------
    def _thread(self, stmts: List[ast.stmt], tname: str, on_true: List[ast.stmt], on_false: List[ast.stmt], budget: List[int]) -> bool:
        """`stmts` end (on every path) in `tname = True/False`; replace each such assignment by a copy of the code the following
        `if tname:` would run. Returns False (nothing usable) when some path does not end in such an assignment."""
        if not stmts:
            return False
        last = stmts[-1]
        if isinstance(last, ast.Assign) and len(last.targets) == 1 and isinstance(last.targets[0], ast.Name) and last.targets[0].id == tname:
            if not (isinstance(last.value, ast.Constant) and isinstance(last.value.value, bool)):
                return False
            repl = [copy.deepcopy(x) for x in (on_true if last.value.value else on_false)]
            budget[0] -= 1
            if budget[0] < 0:
                return False
            stmts[-1:] = repl or [ast.copy_location(ast.Pass(), last)]
            return True
        if isinstance(last, ast.If):
            if not last.orelse:
                return False
            return self._thread(last.body, tname, on_true, on_false, budget) and self._thread(last.orelse, tname, on_true, on_false, budget)
        if isinstance(last, (ast.With, ast.AsyncWith)):
            return False  # moving code into a with block changes what the context manager covers
        if isinstance(last, ast.Try):
            if last.finalbody:
                return False
            ok = True
            if last.orelse:
                ok = ok and self._thread(last.orelse, tname, on_true, on_false, budget)
            elif not _terminates(last.body):
                return False  # the code would move into the protected region
            for h in last.handlers:
                if _terminates(h.body):
                    continue
                ok = ok and self._thread(h.body, tname, on_true, on_false, budget)
            return ok
        return False

    def _try_thread(self, new: List[ast.stmt], tname: str, ifst: ast.If) -> Optional[List[ast.stmt]]:
        t = ifst.test
        neg = isinstance(t, ast.UnaryOp) and isinstance(t.op, ast.Not)
        if neg:
            t = t.operand
        if not (isinstance(t, ast.Name) and t.id == tname):
            return None
        on_true, on_false = (ifst.orelse, ifst.body) if neg else (ifst.body, ifst.orelse)
        size = sum(1 for x in on_true + on_false for _ in ast.walk(x) if isinstance(_, ast.stmt))
        if size > 12:
            return None
        # every binding of the temporary must be one of the tail assignments that are replaced
        n_bind = sum(1 for s2 in new for n in ast.walk(s2) if isinstance(n, ast.Name) and n.id == tname and isinstance(n.ctx, ast.Store))
        trial = [copy.deepcopy(s2) for s2 in new]
        budget = [4]
        if not self._thread(trial, tname, list(on_true), list(on_false), budget):
            return None
        if 4 - budget[0] != n_bind:
            return None
        if any(isinstance(n, ast.Name) and n.id == tname for s2 in trial for n in ast.walk(s2)):
            return None
        return trial

    def _process_block(self, stmts: List[ast.stmt], caller: Def) -> List[ast.stmt]:
        stmts = self._hoist_tests(stmts, caller)
        out: List[ast.stmt] = []
        skip_next = False
        for idx, st in enumerate(stmts):
            if skip_next:
                skip_next = False
                continue
            if isinstance(st, (ast.FunctionDef, ast.AsyncFunctionDef, ast.ClassDef)):
                out.append(st)
                continue
            new = self._expand_stmt(st, caller)
            if new is None:
                new = self._expand_with(st, caller)
            if new is None:
                new = self._expand_for_gen(st, caller)
            if new is not None and isinstance(st, ast.Assign) and isinstance(st.targets[0], ast.Name) and st.targets[0].id.startswith("_inl_t") \
                    and idx + 1 < len(stmts) and isinstance(stmts[idx + 1], ast.If):
                thr = self._try_thread(new, st.targets[0].id, stmts[idx + 1])
                if thr is not None:
                    new = thr
                    skip_next = True
            if new is not None:
                # the expanded code may itself call new helpers
                out.extend(self._process_block(new, caller) if self._depth_ok() else new)
                continue
            for fld in ("body", "orelse", "finalbody"):
                sub = getattr(st, fld, None)
                if isinstance(sub, list) and sub and isinstance(sub[0], ast.stmt):
                    setattr(st, fld, self._process_block(sub, caller))
            for h in getattr(st, "handlers", []) or []:
                h.body = self._process_block(h.body, caller)
            for c in getattr(st, "cases", []) or []:
                c.body = self._process_block(c.body, caller)
            out.append(st)
        if len(out) > 1:
            kept = [s for s in out if not isinstance(s, ast.Pass)]
            out = kept or out[:1]
        return out

    def _depth_ok(self):
        self._depth = getattr(self, "_depth", 0) + 1
        return self._depth < 200

    def _inline_new_constants(self):
        """A module-level name that does not exist on the reference tree and is bound once to a literal-like value
        (`_DESTINATION_EXISTS = (errno.EEXIST, errno.ENOTEMPTY)`, `_CLONED = 1`) is written out where it is used."""
        cand: Dict[str, ast.expr] = {}
        counts: Dict[str, int] = {}
        for n in ast.walk(self.tree):
            if isinstance(n, ast.Name) and isinstance(n.ctx, (ast.Store, ast.Del)):
                counts[n.id] = counts.get(n.id, 0) + 1
            elif isinstance(n, (ast.FunctionDef, ast.AsyncFunctionDef, ast.ClassDef)):
                counts[n.name] = counts.get(n.name, 0) + 1
            elif isinstance(n, ast.arg):
                counts[n.arg] = counts.get(n.arg, 0) + 1
            elif isinstance(n, (ast.Global, ast.Nonlocal)):
                for nm in n.names:
                    counts[nm] = counts.get(nm, 0) + 2
        for st in self.tree.body:
            if isinstance(st, ast.Assign) and len(st.targets) == 1 and isinstance(st.targets[0], ast.Name):
                nm, val = st.targets[0].id, st.value
            elif isinstance(st, ast.AnnAssign) and isinstance(st.target, ast.Name) and st.value is not None:
                nm, val = st.target.id, st.value
            else:
                continue
            if f"{self.modname}:{nm}" in self.known or counts.get(nm, 0) != 1 or not _literal_like(val):
                continue
            # the value must not refer to other new constants that are themselves rebound, nor to itself
            if any(isinstance(x, ast.Name) and x.id == nm for x in ast.walk(val)):
                continue
            cand[nm] = val
        if not cand:
            return
        # mutation through the name (X.append, X[k] = v, del X[k]) disqualifies
        for n in ast.walk(self.tree):
            if isinstance(n, (ast.Subscript, ast.Attribute)) and isinstance(getattr(n, "ctx", None), (ast.Store, ast.Del)) and isinstance(n.value, ast.Name) and n.value.id in cand:
                cand.pop(n.value.id, None)
            if isinstance(n, ast.Call) and isinstance(n.func, ast.Attribute) and isinstance(n.func.value, ast.Name) and n.func.value.id in cand \
                    and n.func.attr in ("append", "extend", "add", "update", "pop", "remove", "clear", "insert", "setdefault", "discard", "sort", "reverse"):
                cand.pop(n.func.value.id, None)
        # constants defined from other new constants: expand inside-out
        for _ in range(3):
            for nm in list(cand):
                cand[nm] = _Rename({}, {k: v for k, v in cand.items() if k != nm}).visit(copy.deepcopy(cand[nm]))
        sub = _Rename({}, cand)
        for d in self.defs:
            if d.parent is None:
                d.node.body = [sub.visit(s) for s in d.node.body]
        for nm in cand:
            self.log.append(f"constant {self.modname}:{nm} written out")

    # -- undoing renames of known functions ------------------------------------------------------------------------
    def _undo_renames(self, bodies: Dict[str, str]):
        """A function of the reference tree that is gone while a new function with the very same body (docstring aside) and parameters sits in the same
        class / module is the same function under a new name: the old name is restored (definition and every reference in the package)."""
        have = {d.qual for d in self.defs}
        for qual, sig in bodies.items():
            if not qual.startswith(self.modname + ":") or qual in have or ".<locals>." in qual:
                continue
            prefix, old = qual.rsplit(":", 1)[0], qual.rsplit(":", 1)[1]
            cont = old.rsplit(".", 1)[0] if "." in old else None
            old_name = old.rsplit(".", 1)[-1]
            cands = []
            for d in self.new:
                if d.kind == "nested":
                    continue
                dcont = d.qual.rsplit(":", 1)[1].rsplit(".", 1)[0] if "." in d.qual.rsplit(":", 1)[1] else None
                if dcont != cont:
                    continue
                if _body_sig(d.node) == sig:
                    cands.append(d)
            if len(cands) != 1:
                continue
            d = cands[0]
            new_name = d.node.name
            if new_name == old_name:
                continue
            # the old name must be free, the new name must not be a known name elsewhere
            if any(q.rsplit(":", 1)[1].rsplit(".", 1)[-1] == new_name for q in self.known if ":" in q and not q.endswith(":" + new_name) is False):
                pass
            if any(isinstance(n, (ast.FunctionDef, ast.AsyncFunctionDef)) and n.name == old_name for n in d.container):
                continue
            for m in (self.pkg.values() or [self]):
                for n in ast.walk(m.tree):
                    if isinstance(n, ast.Name) and n.id == new_name:
                        n.id = old_name
                    elif isinstance(n, ast.Attribute) and n.attr == new_name:
                        n.attr = old_name
                    elif isinstance(n, (ast.FunctionDef, ast.AsyncFunctionDef)) and n.name == new_name and n is d.node:
                        n.name = old_name
                    elif isinstance(n, ast.ImportFrom):
                        for a in n.names:
                            if a.name == new_name:
                                a.name = old_name
                            if a.asname == new_name:
                                a.asname = old_name
                    elif isinstance(n, ast.keyword) and n.arg == new_name:
                        pass
            d.node.name = old_name
            self.log.append(f"{self.modname}: {new_name} is the known function {old_name} under a new name (identical body): name restored")
        self.defs = enumerate_defs(self.modname, self.tree)
        self.new = [d for d in self.defs if d.qual not in self.known]

    # -- re-creating trivial helpers that were inlined away ------------------------------------------------------
    @staticmethod
    def _tmatch(pat, node, params, binds) -> bool:
        """structural match of `node` against the template `pat`; Names of the template that are parameters are metavariables"""
        if isinstance(pat, ast.Name) and pat.id in params:
            if isinstance(node, ast.AST) and not isinstance(node, (ast.stmt, ast.expr_context)):
                prev = binds.get(pat.id)
                if prev is None:
                    binds[pat.id] = node
                    return True
                return ast.dump(prev) == ast.dump(node)
            return False
        if type(pat) is not type(node):
            return False
        if isinstance(pat, ast.AST):
            for f in pat._fields:
                if f in ("ctx", "type_comment", "kind"):
                    continue
                a, b = getattr(pat, f, None), getattr(node, f, None)
                if isinstance(a, list):
                    if not isinstance(b, list) or len(a) != len(b) or not all(ModuleInliner._tmatch(x, y, params, binds) for x, y in zip(a, b)):
                        return False
                elif isinstance(a, ast.AST):
                    if not isinstance(b, ast.AST) or not ModuleInliner._tmatch(a, b, params, binds):
                        return False
                elif a != b:
                    return False
            return True
        return pat == node

    def _outline_vanished(self, templates: Dict[str, dict]):
        """A private one-statement helper of the reference tree that no longer exists because its body was written out at the call sites ("inline function")
        is re-created, and the statements / expressions that are instances of its body become calls again - so that the rules anchored at it keep their anchor."""
        have = {d.qual for d in self.defs}
        for qual, t in templates.items():
            if not qual.startswith(self.modname + ":") or qual in have:
                continue
            try:
                fdef = ast.parse(t["src"]).body[0]
            except (SyntaxError, IndexError, KeyError):
                continue
            body = [x for x in fdef.body if not (isinstance(x, ast.Expr) and isinstance(x.value, ast.Constant) and isinstance(x.value.value, str))]
            if len(body) != 1:
                continue
            st = body[0]
            params = [a.arg for a in fdef.args.args]
            cls_name = t.get("class")
            is_method = cls_name is not None
            # the class must still exist here
            container = self.tree.body
            if is_method:
                cls = [c for c in self.tree.body if isinstance(c, ast.ClassDef) and c.name == cls_name]
                if not cls:
                    continue
                container = cls[0].body
            name = fdef.name
            if any(isinstance(n, (ast.FunctionDef, ast.AsyncFunctionDef)) and n.name == name for n in container):
                continue
            count = 0
            outer = self

            def mk_call(binds, at):
                if is_method:
                    recv = binds.get(params[0])
                    if recv is None:
                        return None
                    args = [binds.get(p) for p in params[1:]]
                    fn = ast.Attribute(value=copy.deepcopy(recv), attr=name, ctx=ast.Load())
                else:
                    args = [binds.get(p) for p in params]
                    fn = ast.Name(id=name, ctx=ast.Load())
                if any(a is None for a in args):
                    return None
                c = ast.Call(func=fn, args=[copy.deepcopy(a) for a in args], keywords=[])
                for x in ast.walk(c):
                    if not hasattr(x, "lineno"):
                        ast.copy_location(x, at)
                return ast.copy_location(c, at)

            skip_funcs = set(t.get("base_instances", []))
            mods = list(self.pkg.values()) if is_method else [self]
            for m in mods:
                # statements of functions that already spelled the body out on the reference tree stay as they are
                protected = set()
                for d in m.defs:
                    if d.qual in skip_funcs:
                        protected |= {id(x) for x in ast.walk(d.node)}
                if isinstance(st, ast.Return) and st.value is not None:
                    pat = st.value

                    class T(ast.NodeTransformer):
                        def generic_visit(self, node):
                            node = super().generic_visit(node)
                            nonlocal count
                            if isinstance(node, ast.expr) and type(node) is type(pat) and id(node) not in protected:
                                b = {}
                                if ModuleInliner._tmatch(pat, node, set(params), b):
                                    c = mk_call(b, node)
                                    if c is not None:
                                        count += 1
                                        return c
                            return node
                    m.tree = T().visit(m.tree)
                elif isinstance(st, (ast.Assign, ast.Expr)):
                    for n in ast.walk(m.tree):
                        for fld in ("body", "orelse", "finalbody"):
                            blk = getattr(n, fld, None)
                            if isinstance(blk, list):
                                for i, s2 in enumerate(blk):
                                    if type(s2) is type(st) and id(s2) not in protected:
                                        b = {}
                                        if ModuleInliner._tmatch(st, s2, set(params), b):
                                            c = mk_call(b, s2)
                                            if c is not None:
                                                blk[i] = ast.copy_location(ast.Expr(value=c), s2)
                                                count += 1
            if count:
                ast.fix_missing_locations(fdef)
                container.append(fdef)
                self.log.append(f"re-created {qual} from {count} written-out instance(s) of its body")
        # definitions changed: re-enumerate
        self.defs = enumerate_defs(self.modname, self.tree)
        self.new = [d for d in self.defs if d.qual not in self.known]

    def _renest_moved(self):
        """A nested helper of the reference tree that now lives at module level under the same name ("hoist nested function") is put back
        into the function that used to own it (a copy at the top of its body); the module-level definition goes if nothing else uses it."""
        cur = {d.qual: d for d in self.defs}
        moved = False
        for q in sorted(self.known):
            if not q.startswith(self.modname + ":") or ".<locals>." not in q or q in cur:
                continue
            outer_q, name = q.rsplit(".<locals>.", 1)
            outer = cur.get(outer_q)
            cand = [d for d in self.new if d.kind == "module" and d.node.name == name]
            foreign = None
            if not cand and self.imports.get(name, (None, None))[0] in self.pkg and name not in {x.node.name for x in self.defs if x.kind == "module"}:
                # hoisted into another module of the package and imported from there
                fm, orig = self.imports[name]
                other = self.pkg[fm]
                cand = [d for d in other.new if d.kind == "module" and d.node.name == orig]
                if len(cand) == 1 and orig == name and self._foreign_ok(cand[0], other):
                    foreign = other
                else:
                    cand = []
            if outer is None or len(cand) != 1:
                continue
            g = cand[0]
            if g.node.decorator_list or any(isinstance(n, ast.Name) and n.id == outer.node.name for n in ast.walk(g.node)):
                continue
            # the outer function must still call it by that plain name
            if not any(isinstance(n, ast.Call) and isinstance(n.func, ast.Name) and n.func.id == name for n in ast.walk(outer.node)):
                continue
            body = outer.node.body
            pos = 1 if (body and isinstance(body[0], ast.Expr) and isinstance(body[0].value, ast.Constant) and isinstance(body[0].value.value, str)) else 0
            body.insert(pos, copy.deepcopy(g.node))
            self.log.append(f"re-nested {g.qual} into {outer_q}")
            if foreign is not None:
                self._apply_pending_imports(g)
                for n in ast.walk(self.tree):
                    if isinstance(n, ast.ImportFrom) and any((a.asname or a.name) == name for a in n.names) and self.imports.get(name) == (foreign.modname, name):
                        n.names = [a for a in n.names if (a.asname or a.name) != name] or [ast.alias(name="__name__", asname="_unused_import")]
                        if n.names[0].asname == "_unused_import":
                            n.module, n.level = "builtins", 0
                self.imports.pop(name, None)
                self.module_bound.discard(name)
                foreign.expanded[id(g)] = foreign.expanded.get(id(g), 0) + 1
                moved = True
                continue
            others = sum(1 for n in ast.walk(self.tree) if isinstance(n, ast.Name) and n.id == name and isinstance(n.ctx, ast.Load)
                         and not any(n is x for x in ast.walk(outer.node)) and not any(n is x for x in ast.walk(g.node)))
            if not others and g.node in g.container:
                g.container.remove(g.node)
            moved = True
        if moved:
            self.defs = enumerate_defs(self.modname, self.tree)
            self.new = [d for d in self.defs if d.qual not in self.known]

    def _nest_value_refs(self):
        """A new helper that is only handed on as a value (`pool.map(self._helper, chunk)`, `key=_helper`) cannot be expanded at a call site; it is turned
        back into the local closure it replaces: a copy of the definition is nested at the top of the function that refers to it and the reference becomes
        the plain name."""
        changed = False
        for caller in list(self.defs):
            if caller.parent is not None:
                continue
            top_cls = caller.cls
            first = caller.node.args.args[0].arg if caller.node.args.args else None
            for g in list(self.new):
                if g is caller or g.kind == "nested" or not self._eligible(g):
                    continue
                name = g.node.name
                refs = []
                for n in ast.walk(caller.node):
                    for fld, val in ast.iter_fields(n):
                        vals = val if isinstance(val, list) else [val]
                        for v in vals:
                            if isinstance(n, ast.Call) and fld == "func":
                                continue
                            if g.kind == "method" and top_cls is not None and g.cls is top_cls and isinstance(v, ast.Attribute) and v.attr == name \
                                    and isinstance(v.value, ast.Name) and v.value.id == first and isinstance(v.ctx, ast.Load) \
                                    and "staticmethod" not in [ast.unparse(x) for x in g.node.decorator_list] and "classmethod" not in [ast.unparse(x) for x in g.node.decorator_list]:
                                refs.append((n, fld, v))
                            elif g.kind == "module" and isinstance(v, ast.Name) and v.id == name and isinstance(v.ctx, ast.Load):
                                refs.append((n, fld, v))
                if not refs:
                    continue
                if name in _stored_names(caller.node):
                    continue
                nested = copy.deepcopy(g.node)
                nested.decorator_list = []
                if g.kind == "method":
                    if not nested.args.args or nested.args.args[0].arg != first:
                        continue
                    nested.args.args = nested.args.args[1:]
                body = caller.node.body
                pos = 1 if (body and isinstance(body[0], ast.Expr) and isinstance(body[0].value, ast.Constant) and isinstance(body[0].value.value, str)) else 0
                body.insert(pos, nested)
                for (n, fld, v) in refs:
                    new = ast.copy_location(ast.Name(id=name, ctx=ast.Load()), v)
                    val = getattr(n, fld)
                    if isinstance(val, list):
                        val[[i for i, x in enumerate(val) if x is v][0]] = new
                    else:
                        setattr(n, fld, new)
                self.log.append(f"{caller.qual}: value reference to {g.qual} turned into a local closure")
                self.expanded[id(g)] = self.expanded.get(id(g), 0) + 1
                changed = True
        if changed:
            self.defs = enumerate_defs(self.modname, self.tree)
            old_exp = self.expanded
            self.new = [d for d in self.defs if d.qual not in self.known]
            # carry the expansion counts over to the re-enumerated defs (same nodes)
            self.expanded = {id(d): n for d in self.new for k, n in old_exp.items() if k == id(d)} | old_exp

    def _partial_to_closure(self):
        """`X = partial(new_helper, a=a, b=b)` inside a function: the local closure the helper was hoisted from is written out again -
        `def X(<remaining parameters>): <helper body with the bound parameters read as the captured names>`. Only plain names that the enclosing function
        does not re-bind afterwards are accepted as bound values (then capturing the value and reading the name later are the same)."""
        changed = False
        for caller in list(self.defs):
            host = caller.node
            for blk in _stmt_blocks(host):
                for i, st in enumerate(list(blk)):
                    if not (isinstance(st, ast.Assign) and len(st.targets) == 1 and isinstance(st.targets[0], ast.Name) and isinstance(st.value, ast.Call)):
                        continue
                    c = st.value
                    fname = c.func.id if isinstance(c.func, ast.Name) else (c.func.attr if isinstance(c.func, ast.Attribute) and isinstance(c.func.value, ast.Name) and c.func.value.id == "functools" else None)
                    if fname != "partial" or not c.args or not isinstance(c.args[0], ast.Name):
                        continue
                    if isinstance(c.func, ast.Name) and self.imports.get("partial") != ("functools", "partial"):
                        continue
                    g = [d for d in self.new if d.kind == "module" and d.node.name == c.args[0].id]
                    if len(g) != 1 or g[0] is caller:
                        continue
                    g = g[0]
                    fn = g.node
                    # `**options` of the helper is accepted when it is only ever passed on as `**options`: the partial's surplus keywords are written there
                    kwname = fn.args.kwarg.arg if fn.args.kwarg else None
                    if kwname is not None:
                        uses = [n for n in ast.walk(fn) if isinstance(n, ast.Name) and n.id == kwname]
                        stars = [k.value for n in ast.walk(fn) if isinstance(n, ast.Call) for k in n.keywords if k.arg is None and isinstance(k.value, ast.Name) and k.value.id == kwname]
                        if len(uses) != len(stars) or fn.args.vararg or isinstance(fn, ast.AsyncFunctionDef) or fn.decorator_list \
                                or any(isinstance(n, ast.Call) and isinstance(n.func, ast.Name) and n.func.id == fn.name for n in ast.walk(fn)):
                            continue
                    elif not self._eligible(g):
                        continue
                    if any(k.arg is None for k in c.keywords) or any(isinstance(a, ast.Starred) for a in c.args):
                        continue
                    pos = [a.arg for a in fn.args.args]
                    bound: Dict[str, ast.expr] = {}
                    extra_kw: List[ast.keyword] = []
                    okb = True
                    for pname, a in zip(pos, c.args[1:]):
                        bound[pname] = a
                    if len(c.args) - 1 > len(pos):
                        continue
                    allp = set(pos) | {a.arg for a in fn.args.kwonlyargs}
                    for k in c.keywords:
                        if k.arg in bound:
                            okb = False
                        elif k.arg not in allp:
                            if kwname is None:
                                okb = False
                            extra_kw.append(k)
                        else:
                            bound[k.arg] = k.value
                    if not okb:
                        continue
                    # values that are not plain names are evaluated once, where the partial object is created: bound to a fresh local first
                    pre_assign: List[ast.stmt] = []
                    taken = _all_names(host)

                    def as_name(label, v):
                        if isinstance(v, ast.Name):
                            return v
                        self.counter += 1
                        nm = f"_bound_{label}_{self.counter}"
                        while nm in taken:
                            self.counter += 1
                            nm = f"_bound_{label}_{self.counter}"
                        taken.add(nm)
                        asg = ast.copy_location(ast.Assign(targets=[ast.copy_location(ast.Name(id=nm, ctx=ast.Store()), v)], value=v), st)
                        ast.fix_missing_locations(asg)
                        pre_assign.append(asg)
                        return ast.copy_location(ast.Name(id=nm, ctx=ast.Load()), v)
                    bound = {pn: as_name(pn, v) for pn, v in bound.items()}
                    extra_kw = [ast.keyword(arg=k.arg, value=as_name(k.arg, k.value)) for k in extra_kw]
                    stored_in_g = _stored_names(fn)
                    if any(pn in stored_in_g for pn in bound):
                        continue
                    # the captured names must not be re-bound by the host after this statement
                    later = {n.id for n in ast.walk(host) if isinstance(n, ast.Name) and isinstance(n.ctx, (ast.Store, ast.Del)) and getattr(n, "lineno", 0) > st.lineno}
                    if any(v.id in later for v in bound.values()) or st.targets[0].id in later:
                        continue
                    # a captured name must not be shadowed by a local of the helper
                    if any(v.id in stored_in_g or v.id in (allp - set(bound)) for v in bound.values() if v.id not in bound or bound.get(v.id) is not v):
                        if any((v.id in stored_in_g or v.id in (allp - set(bound))) for v in bound.values()):
                            continue
                    nested = copy.deepcopy(fn)
                    nested.name = st.targets[0].id
                    nested.decorator_list = []
                    a = nested.args
                    ndef = len(a.defaults)
                    keep_pos, keep_def = [], []
                    defaults = [None] * (len(a.args) - ndef) + list(a.defaults)
                    for arg_, dv in zip(a.args, defaults):
                        if arg_.arg not in bound:
                            keep_pos.append(arg_)
                            keep_def.append(dv)
                    # defaults must stay a suffix
                    if any(d is None for d in keep_def[next((j for j, d in enumerate(keep_def) if d is not None), len(keep_def)):]):
                        continue
                    a.args = keep_pos
                    a.defaults = [d for d in keep_def if d is not None]
                    kws = [(x, d) for x, d in zip(a.kwonlyargs, a.kw_defaults) if x.arg not in bound]
                    a.kwonlyargs = [x for x, _ in kws]
                    a.kw_defaults = [d for _, d in kws]
                    ren = {pn: v.id for pn, v in bound.items() if pn != v.id}
                    if ren:
                        for n in ast.walk(nested):
                            if isinstance(n, ast.Name) and n.id in ren:
                                n.id = ren[n.id]
                    if kwname is not None:
                        a.kwarg = None
                        for n in ast.walk(nested):
                            if isinstance(n, ast.Call):
                                newk = []
                                for k in n.keywords:
                                    if k.arg is None and isinstance(k.value, ast.Name) and k.value.id == kwname:
                                        newk.extend(copy.deepcopy(x) for x in extra_kw)
                                    else:
                                        newk.append(k)
                                n.keywords = newk
                    ast.copy_location(nested, st)
                    for n in ast.walk(nested):
                        if "lineno" in getattr(n, "_attributes", ()):
                            n.lineno = n.end_lineno = st.lineno
                    idx0 = blk.index(st)
                    blk[idx0:idx0 + 1] = pre_assign + [nested]
                    self.log.append(f"{caller.qual}: {nested.name} = partial({fn.name}, ...) written out as the local closure it stands for")
                    self.expanded[id(g)] = self.expanded.get(id(g), 0) + 1
                    changed = True
        if changed:
            self.defs = enumerate_defs(self.modname, self.tree)
            self.new = [d for d in self.defs if d.qual not in self.known]

    def run(self) -> ast.Module:
        self._partial_to_closure()
        self._renest_moved()
        from . import restore
        restore.restore_nested_names(self, restore.load_sources())
        self._nest_value_refs()
        self._inline_new_constants()
        if not self.new and not any(m.new for m in self.pkg.values()):
            return self.tree
        # callers: every function of the module (new helpers first, so that helper-in-helper chains resolve inside-out)
        order = [d for d in self.defs if d in self.new] + [d for d in self.defs if d not in self.new]
        for _round in range(3):
            before = sum(self.expanded.values())
            for caller in order:
                self._expand_exprs(caller)
                caller.node.body = self._process_block(caller.node.body, caller)
            if sum(self.expanded.values()) == before:
                break
        return self.tree

    def finish(self) -> ast.Module:
        """after all modules were expanded: tidy and drop helpers without remaining references (in any module)"""
        # tidy: `else: pass` left behind by the conversion
        for n in ast.walk(self.tree):
            if isinstance(n, (ast.If, ast.Try, ast.For, ast.While)) and getattr(n, "orelse", None) and all(isinstance(x, ast.Pass) for x in n.orelse):
                n.orelse = []
        # drop helpers that are no longer referenced
        for d in self.new:
            if not self.expanded.get(id(d)):
                continue
            name = d.node.name
            refs = 0
            for n in ast.walk(self.tree):
                if n is d.node:
                    continue
                if isinstance(n, ast.Name) and n.id == name and isinstance(n.ctx, ast.Load):
                    refs += 1
                elif isinstance(n, ast.Attribute) and n.attr == name:
                    refs += 1
            # references inside the helper itself do not count
            own = sum(1 for n in ast.walk(d.node) if (isinstance(n, ast.Name) and n.id == name) or (isinstance(n, ast.Attribute) and n.attr == name))
            # uses from other modules (by imported name) that were not expanded
            if d.kind == "module":
                for m in self.pkg.values():
                    if m is self:
                        continue
                    loc = [ln for ln, (mod, orig) in m.imports.items() if mod == self.modname and orig == name]
                    for ln in loc:
                        refs += sum(1 for n in ast.walk(m.tree) if isinstance(n, ast.Name) and n.id == ln and isinstance(n.ctx, ast.Load))
                    refs += sum(1 for n in ast.walk(m.tree) if isinstance(n, ast.Attribute) and n.attr == name and isinstance(n.value, ast.Name)
                                and m.imports.get(n.value.id, (None, 1))[0] == self.modname and m.imports.get(n.value.id, (None, 1))[1] is None)
            if refs - own <= 0 and d.node in d.container:
                d.container.remove(d.node)
                if not d.container:
                    d.container.append(ast.copy_location(ast.Pass(), d.node))
                self.log.append(f"removed {d.qual}")
                # the name is gone: imports of it elsewhere go too
                if d.kind == "module":
                    for m in self.pkg.values():
                        if m is self:
                            continue
                        for n in ast.walk(m.tree):
                            if isinstance(n, ast.ImportFrom):
                                keep = [a for a in n.names if not (m.imports.get(a.asname or a.name) == (self.modname, name))]
                                if len(keep) != len(n.names):
                                    n.names = keep or [ast.alias(name="__name__", asname="_unused_import")]
                                    if not keep:
                                        n.module, n.level = "builtins", 0
        return self.tree


def _walk_loop_level(loop):
    """nodes of a loop body that belong to this loop level (not nested loops / defs)"""
    stack = list(loop.body)
    while stack:
        n = stack.pop()
        if isinstance(n, (ast.For, ast.While, ast.AsyncFor, ast.FunctionDef, ast.AsyncFunctionDef, ast.ClassDef, ast.Lambda)):
            continue
        yield n
        stack.extend(ast.iter_child_nodes(n))


def inline_new_helpers(modname: str, tree: ast.Module, known: Optional[Set[str]]) -> Tuple[ast.Module, List[str]]:
    """single module (used by the self-test)"""
    if known is None:
        return tree, []
    inl = ModuleInliner(modname, tree, known)
    inl.pkg = {modname: inl}
    try:
        inl.run()
        tree = inl.finish()
    except RecursionError:
        pass
    return tree, inl.log


def inline_package(trees: Dict[str, Tuple[ast.Module, bool]], known: Optional[Set[str]]) -> Tuple[Dict[str, ast.Module], List[str]]:
    """all modules of the package together: helpers that do not exist on the reference tree are expanded into their callers, also across modules.
    trees: module name -> (tree, is_package_init)"""
    if known is None:
        return {k: v[0] for k, v in trees.items()}, []
    pkg: Dict[str, ModuleInliner] = {}
    for name, (tree, is_pkg) in trees.items():
        pkg[name] = ModuleInliner(name, tree, known, pkg, is_pkg)
    log: List[str] = []
    try:
        templates = load_templates()
        bodies = load_bodies()
        for _pass in range(3):  # a renamed function may call another renamed function: repeat until nothing more is recognised
            n_before = sum(len(m.log) for m in pkg.values())
            for m in pkg.values():
                m._undo_renames(bodies)
            for m in pkg.values():
                m.defs = enumerate_defs(m.modname, m.tree)
                m.new = [d for d in m.defs if d.qual not in m.known]
            if sum(len(m.log) for m in pkg.values()) == n_before:
                break
        from . import restore
        sources = restore.load_sources()
        for m in pkg.values():
            m._inline_new_constants()       # before anything is moved between modules
        restore.restore_functions(pkg, sources)
        restore.restore_signatures(pkg, sources)
        restore.restore_successors(pkg, sources)
        for m in pkg.values():
            m._inline_new_constants()
        for m in pkg.values():
            m._outline_vanished(templates)
        restore.restore_inlined(pkg, sources)
        for m in pkg.values():
            # trees may have been rewritten by another module's outlining: refresh
            m.defs = enumerate_defs(m.modname, m.tree)
            m.new = [d for d in m.defs if d.qual not in m.known]
        for m in pkg.values():
            m.run()
        for m in pkg.values():
            m.finish()
    except RecursionError:
        pass
    for m in pkg.values():
        log += m.log
    return {k: m.tree for k, m in pkg.items()}, log
