"""C06 - find_jobs returns exactly the jobs a per-job reference evaluator accepts."""
import ast
import operator as _operator

from ..engine import rule, Ctx
from ..core import UNKNOWN, dotted, kwarg, body_nodes, inline, stmt_key, canon, walk_no_nested, names_in
from . import common

PROP = "C06"
FLOOR = 24
EXPLANATION = (
    "Decided (structural necessary conditions): (a) the three functions that treat logical operators (_add_prefix, "
    "_root_keys, _SearchIndexer._find_result) handle the same operator set; (b) every operator of the documented grammar is "
    "in _INDEX_OPERATORS or handled as $exists, every member of _INDEX_OPERATORS has a branch in _find_with_index_operator or "
    "maps to a function of the stdlib operator module, and every operator is answered by evaluating its predicate on every "
    "key of the typed index (no return before the scan); (c) the four accessors of the typed value index apply the same key "
    "normalisation, which is abstractly evaluated over the JSON scalar types to see which Python-equal values of different "
    "type share a dict slot; (d) build_index files an id only under values taken from that id's own document; (e) the "
    "decision to index job documents is computed from the root keys of the same prefixed filter that is evaluated; (f) in "
    "_find_result the 'no result yet' state is distinguished from the empty result by identity with None, $not is the "
    "complement relative to all ids, $and intersects and $or unites the operand results."
    " Further: (k) the $near branch is evaluated abstractly for each documented argument shape and the reference / tolerances reaching isclose are compared with the documented ones; (l) the index builders carry nothing from one job's iteration to the next; _hashable_dict hashes its unordered item set (consistent with dict equality), never a text serialisation."
    ' The typed index de-normalises keys in __iter__ as in keys(); the index receives the whole decoded document (no projection chosen by a second parser of the filter); no cache of file content validated by time stamp / size; generator expressions built in loops do not outlive the iteration whose variables they capture.'
    ' (n) the simple filter syntax does not pair tokens by zip of two strided slices (C06-n).'
)
UNDECIDED = "Value semantics of each operator, set-algebra identities over all corpora and the int/float dual lookup are not decided."

IDX = "signac._search_indexer"
FP = "signac.filterparse"
DOCUMENTED = {"$eq", "$ne", "$gt", "$gte", "$lt", "$lte", "$in", "$nin", "$exists", "$regex", "$type", "$near"}
LOGICAL = {"$and", "$or", "$not"}


def _logical_in(fi, varname):
    s = common.str_consts_compared(body_nodes(fi), varname)
    return {x for x in s if x.startswith("$")}


@rule("C06-a")
def c06_a(ctx: Ctx):
    """Logical-operator tables of the prefixer, the root-key extractor and the evaluator agree."""
    R = "C06-a"
    out = []
    ap, rk = ctx.fn(FP + ":_add_prefix"), ctx.fn(FP + ":_root_keys")
    fr = ctx.fn(IDX + ":_SearchIndexer._find_result")
    s_ap, s_rk = _logical_in(ap, None), _logical_in(rk, None)
    s_fr = set()
    for n in body_nodes(fr):
        if isinstance(n, ast.Call) and isinstance(n.func, ast.Attribute) and n.func.attr in ("pop", "get") and n.args \
                and isinstance(n.args[0], ast.Constant) and isinstance(n.args[0].value, str) and n.args[0].value.startswith("$"):
            s_fr.add(n.args[0].value)
    ref = s_fr
    if not ref:
        return [ctx.inc(R, fr, fr.node, "no logical operators found in _find_result")]
    for name, fi, s in (("_add_prefix", ap, s_ap), ("_root_keys", rk, s_rk)):
        miss = ref - s
        extra = s - ref
        k = f"{fi.qual}|logical-ops"
        if miss:
            what = ("the filter below it is not prefixed" if name == "_add_prefix" else
                    "a 'doc.' key below it is not seen, the index is built without job documents and the condition is evaluated against nothing")
            out.append(ctx.viol(R, fi, fi.node, f"{name} does not descend into {sorted(miss)} although the evaluator implements it: {what}", construct=k))
        elif extra:
            out.append(ctx.inc(R, fi, fi.node, f"{name} treats {sorted(extra)} as logical operators but the evaluator does not", construct=k))
        else:
            out.append(ctx.ok(R, fi, fi.node, f"{name} handles {sorted(s)}, the same set as _find_result", construct=k))
    if ref == LOGICAL:
        out.append(ctx.ok(R, fr, fr.node, "_find_result implements $and, $or, $not", construct=fr.qual + "|logical-ops"))
    else:
        out.append(ctx.viol(R, fr, fr.node, f"_find_result implements {sorted(ref)}; the documented grammar has $and, $or, $not", construct=fr.qual + "|logical-ops"))
    return out


@rule("C06-b")
def c06_b(ctx: Ctx):
    """Operator exhaustiveness and evaluation by scanning the typed index."""
    R = "C06-b"
    out = []
    m = ctx.prog.mod(IDX)
    ops = ctx.fold(m.consts.get("_INDEX_OPERATORS"), None, m) if "_INDEX_OPERATORS" in m.consts else UNKNOWN
    if ops is UNKNOWN:
        return [ctx.inc(R, None, None, "_INDEX_OPERATORS does not fold", construct="ops")]
    ops = set(ops)
    fe = ctx.fn(IDX + ":_SearchIndexer._find_expression")
    exists_handled = "$exists" in common.str_consts_compared(body_nodes(fe), None)
    for o in sorted(DOCUMENTED):
        k = f"grammar|{o}"
        if o in ops or (o == "$exists" and exists_handled):
            out.append(ctx.ok(R, None, None, f"documented operator {o} is dispatched", construct=k))
        else:
            out.append(ctx.viol(R, fe, fe.node, f"documented operator {o} is neither in _INDEX_OPERATORS nor handled by _find_expression: filters using it raise KeyError", construct=k))
    own = common.str_consts_compared(body_nodes(fe), None) & ops
    if own:
        out.append(ctx.viol(R, fe, fe.node, f"_find_expression answers {sorted(own)} itself instead of dispatching it to _find_with_index_operator: that evaluator is the only place where the "
                            "operator's predicate is applied to every key of the typed index (look-ups by candidate miss equal values of the other numeric type: 1 vs 1.0)",
                            construct=fe.qual + "|own-operators"))
    else:
        out.append(ctx.ok(R, fe, fe.node, "every index operator is dispatched to _find_with_index_operator", construct=fe.qual + "|own-operators"))
    disp = [c for c in body_nodes(fe) if isinstance(c, ast.Call) and (IDX + ":_find_with_index_operator") in common.targets_of(ctx, fe, c)]
    for c in disp:
        a = [canon(common.inline_at(ctx, fe, x, c)).replace(" ", "") for x in c.args]
        if len(a) == 3 and a[0].startswith("self.build_index(") and a[1].endswith(".split('.')[-1]") and a[2] == fe.params[-1]:
            out.append(ctx.ok(R, fe, c, "dispatch passes (index of the key, operator component, value) unchanged"))
        else:
            out.append(ctx.inc(R, fe, c, f"dispatch arguments {a}"))
    f = ctx.fn(IDX + ":_find_with_index_operator")
    branches = common.str_consts_compared(body_nodes(f), f.params[1] if len(f.params) > 1 else None)
    rename = {}
    for n in body_nodes(f):
        if isinstance(n, ast.Call) and isinstance(n.func, ast.Name) and n.func.id == "getattr" and len(n.args) >= 2:
            for d in ast.walk(n.args[1]):
                if isinstance(d, ast.Dict):
                    v = ctx.fold(d, f)
                    if isinstance(v, dict):
                        rename = v
    for o in sorted(ops):
        k = f"{f.qual}|branch:{o}"
        if o in branches:
            out.append(ctx.ok(R, f, f.node, f"{o} has an explicit branch", construct=k))
        else:
            name = rename.get(o, o)[1:]
            if hasattr(_operator, name):
                out.append(ctx.ok(R, f, f.node, f"{o} maps to operator.{name}", construct=k))
            else:
                out.append(ctx.viol(R, f, f.node, f"{o} has no branch and operator.{name} does not exist: AttributeError for filters using {o}", construct=k))
    # every return is preceded by the scan over the index keys
    ix = f.params[0]
    f = ctx.desugared(f)        # `return {i for v in index if op(v, a) for i in index[v]}` is the scanning loop it abbreviates
    cfg = ctx.cfg(f)
    scans = {n.id for n in cfg.stmt_nodes() if isinstance(n.ast, ast.For) and canon(n.ast.iter) in (ix, ix + ".keys()", f"list({ix})", ix + ".items()")}
    if not scans:
        out.append(ctx.inc(R, f, f.node, "no loop over the index keys"))
    for n in cfg.stmt_nodes():
        if isinstance(n.ast, ast.Return):
            w = cfg.must_pass_before(n.id, scans, kinds="n")
            if w is None:
                out.append(ctx.ok(R, f, n.ast, "the result is produced by evaluating the operator's predicate on every index key"))
            else:
                out.append(ctx.viol(R, f, n.ast, "an operator is answered without scanning the index keys: direct look-ups in the typed index miss values that are equal "
                                    "but of the other numeric type (1 vs 1.0), so the operator disagrees with its negation and with plain equality",
                                    witness=cfg.describe_path(w)))
    return out


@rule("C06-c")
def c06_c(ctx: Ctx):
    """Typed value index: sibling accessors agree; abstract evaluation of the key normalisation over JSON scalar types."""
    R = "C06-c"
    out = []
    ci = ctx.prog.cls(IDX + ":_TypedSetDefaultDict")
    norms = {}
    for name in ("__getitem__", "__setitem__", "__delitem__", "get"):
        f = ci.methods.get(name)
        if f is None:
            out.append(ctx.viol(R, None, None, f"_TypedSetDefaultDict has no {name}: that access path uses plain dict keys and conflates 1 with 1.0", construct=f"typed|{name}"))
            continue
        calls = [c for c in body_nodes(f) if isinstance(c, ast.Call) and isinstance(c.func, ast.Attribute) and canon(c.func.value) == "dict" and len(c.args) >= 2]
        if not calls:
            out.append(ctx.inc(R, f, f.node, "accessor does not delegate to dict.<method>(self, <key>, ...)"))
            continue
        norms[name] = canon(calls[0].args[1])
    vals = set(norms.values())
    if len(vals) == 1:
        out.append(ctx.ok(R, None, None, f"all {len(norms)} accessors normalise keys identically: {next(iter(vals))}", construct="typed|siblings"))
    elif norms:
        out.append(ctx.viol(R, None, None, f"accessors of the typed index normalise keys differently: {norms}: a value stored through one is not found through another", construct="typed|siblings"))
    # enumeration protocol: keys() hands out the de-normalised keys (float instead of the internal _float); plain iteration (`for v in index`, which the
    # operator evaluation uses) must do the same, i.e. __iter__ is keys or spelled like it. dict.__iter__ would hand out the internal wrapper objects.
    kf = ci.methods.get("keys")
    denorm = kf is not None and any(isinstance(n, ast.IfExp) for n in body_nodes(kf))
    if denorm:
        it_attr = ci.attrs.get("__iter__")
        it_fn = ci.methods.get("__iter__")
        ki = "typed|__iter__"
        if it_attr is not None and canon(it_attr) == "keys":
            out.append(ctx.ok(R, None, None, "plain iteration over the typed index is keys(): it yields the stored values, not the internal wrapper keys", construct=ki))
        elif it_fn is not None:
            same = [canon(x) for x in it_fn.node.body if not (isinstance(x, ast.Expr) and isinstance(x.value, ast.Constant))] == \
                   [canon(x) for x in kf.node.body if not (isinstance(x, ast.Expr) and isinstance(x.value, ast.Constant))]
            delegates = any(isinstance(c, ast.Call) and isinstance(c.func, ast.Attribute) and c.func.attr == "keys" and canon(c.func.value) == "self" for c in body_nodes(it_fn))
            if same or delegates:
                out.append(ctx.ok(R, it_fn, it_fn.node, "__iter__ yields what keys() yields", construct=ki))
            else:
                out.append(ctx.inc(R, it_fn, it_fn.node, "__iter__ of the typed index is not keys()", construct=ki))
        else:
            out.append(ctx.viol(R, kf, kf.node, "_TypedSetDefaultDict overrides keys() to hand out floats for the internal _float keys but not __iter__: `for value in index` (operator "
                                "evaluation) then sees the wrapper objects, which only compare equal to other wrappers, so $eq / $in never match a float value and $nin always does",
                                construct=ki))
    # abstract evaluation: which types are wrapped (given a distinct hash)?
    norm = next(iter(vals)) if vals else ""
    wrapped = set()
    try:
        e = ast.parse(norm, mode="eval").body
    except SyntaxError:
        e = None
    cur = e
    while isinstance(cur, ast.IfExp):
        t = canon(cur.test).replace(" ", "")
        for ty in ("float", "bool", "int"):
            if t in (f"type(key)is{ty}", f"isinstance(key,{ty})"):
                wrapped.add(ty)
        cur = cur.orelse
    fl = ctx.prog.classes.get(IDX + ":_float")
    float_sep = "float" in wrapped and fl is not None and "__hash__" in fl.methods
    # Two keys share a dict slot iff their hashes are equal AND they compare equal.  Separation is therefore guaranteed either by a type-exclusive __eq__
    # of the wrapper, or - if only the hash is shifted - by the shifted hash never meeting the hash of the equal int.  The latter is decided by evaluating the
    # hash expression (an arithmetic expression over super().__hash__()) on a probe set of integer-valued floats, with CPython's rule that -1 is stored as -2.
    excl = False
    if fl is not None and "__eq__" in fl.methods:
        eqf = fl.methods["__eq__"]
        rets = [r for r in body_nodes(eqf) if isinstance(r, ast.Return) and r.value is not None]
        par = eqf.params[1] if len(eqf.params) > 1 else "other"
        excl = bool(rets) and all(any(t in canon(r.value).replace(" ", "") for t in (f"type({par})is_float", f"isinstance({par},_float)", f"type({par})istype(self)")) and
                                  (isinstance(r.value, ast.BoolOp) and isinstance(r.value.op, ast.And) or isinstance(r.value, ast.Compare)) for r in rets)
    collisions = None
    if float_sep and not excl:
        hf = fl.methods["__hash__"]
        rets = [r for r in body_nodes(hf) if isinstance(r, ast.Return) and r.value is not None]
        if len(rets) == 1:
            def _ev(e, h):
                if isinstance(e, ast.Constant) and isinstance(e.value, int):
                    return e.value
                if isinstance(e, ast.Call) and canon(e).replace(" ", "") in ("super().__hash__()", "float.__hash__(self)", "hash(float(self))"):
                    return h
                if isinstance(e, ast.UnaryOp) and isinstance(e.op, ast.USub):
                    return -_ev(e.operand, h)
                if isinstance(e, ast.UnaryOp) and isinstance(e.op, ast.Invert):
                    return ~_ev(e.operand, h)
                if isinstance(e, ast.BinOp) and type(e.op) in (ast.Add, ast.Sub, ast.Mult, ast.BitXor):
                    a, b = _ev(e.left, h), _ev(e.right, h)
                    return {ast.Add: a + b, ast.Sub: a - b, ast.Mult: a * b, ast.BitXor: a ^ b}[type(e.op)]
                raise ValueError(canon(e))
            try:
                collisions = []
                for kk in list(range(-6, 7)) + [2 ** 31, -2 ** 31, 2 ** 53, 2 ** 61 - 2, 2 ** 61 - 1, -(2 ** 61), 2 ** 61]:
                    hv = hash(int(_ev(rets[0].value, hash(float(kk)))))   # what CPython stores for the returned int (-1 becomes -2, large values are reduced)
                    if hv == hash(kk):
                        collisions.append(kk)
            except (ValueError, OverflowError):
                collisions = None
    if float_sep and excl:
        out.append(ctx.ok(R, None, None, "float keys are wrapped in _float, which only compares equal to other _float keys: an int and the equal float can never share a slot", construct="typed|int-float"))
    elif float_sep and collisions == []:
        out.append(ctx.ok(R, None, None, "float keys are wrapped in _float, whose shifted hash never meets the hash of the equal int on the probe set", construct="typed|int-float"))
    elif float_sep and collisions:
        out.append(ctx.viol(R, fl.methods["__hash__"], fl.methods["__hash__"].node, f"_float only shifts the hash ({canon(rets[0].value)}) and still compares equal to ints; for the values "
                            f"{collisions} the shifted hash equals the hash of the equal int (CPython stores -1 as -2), so e.g. {collisions[0]} and {float(collisions[0])} share one slot: "
                            "{'$type': 'int'} returns the float's job and misses the int's, the schema loses values", construct="typed|int-float"))
    elif float_sep:
        out.append(ctx.inc(R, None, None, "separation of int and float keys: neither a type-exclusive __eq__ nor a hash expression that can be evaluated", construct="typed|int-float"))
    else:
        out.append(ctx.viol(R, None, None, "int and float keys that compare equal (1 and 1.0) share one slot of the value index: which type is reported depends on which job was indexed first",
                            construct="typed|int-float"))
    if "bool" in wrapped:
        out.append(ctx.ok(R, None, None, "bool keys are kept apart from ints", construct="typed|bool-int"))
    else:
        f = ci.methods.get("__getitem__")
        out.append(ctx.viol(R, f, f.node if f else None, "bool and int keys that compare equal (True and 1, False and 0) share one slot of the value index: {'$type': 'bool'}, schema "
                            "grouping by type and exclude_const depend on which job was indexed first", construct="typed|bool-int"))
    return out


@rule("C06-d")
def c06_d(ctx: Ctx):
    """build_index files an id only under values of that id's own document."""
    R = "C06-d"
    f = ctx.fn(IDX + ":_SearchIndexer.build_index")
    out = []
    loops = [n for n in body_nodes(f) if isinstance(n, ast.For) and canon(n.iter) in ("self.items()",)]
    if not loops:
        return [ctx.inc(R, f, f.node, "no loop over self.items()")]
    lp = loops[0]
    idv, docv = (lp.target.elts[0].id, lp.target.elts[1].id) if isinstance(lp.target, ast.Tuple) else (None, None)
    adds = [c for st in lp.body + lp.orelse for c in ast.walk(st) if isinstance(c, ast.Call) and isinstance(c.func, ast.Attribute) and c.func.attr == "add"]
    if not adds:
        return [ctx.inc(R, f, lp, "no index[...].add(...) in the loop")]
    for a in adds:
        if a.args and isinstance(a.args[0], ast.Name) and a.args[0].id == idv:
            out.append(ctx.ok(R, f, a, "the id filed is the id of the document being visited"))
        else:
            out.append(ctx.viol(R, f, a, f"index receives {stmt_key(a.args[0], 30) if a.args else '?'}, not the id of the visited document"))
    inner_targets = {x for l2 in ast.walk(lp) if isinstance(l2, ast.For) and l2 is not lp for x in common.target_names(l2.target)}
    conv = [c for c in ast.walk(lp) if isinstance(c, ast.Call) and isinstance(c.func, ast.Name) and c.func.id == "int" and c.args and canon(c.args[0]) in inner_targets]
    if conv:
        out.append(ctx.viol(R, f, conv[0], "key components are converted to list positions (int(n)): a digit-only key such as 'coeffs.0' now also selects element 0 of jobs where 'coeffs' is a list, "
                            "so those jobs contribute values to a key they do not have"))
    hs = [h for h in ast.walk(lp) if isinstance(h, ast.ExceptHandler)]
    for h in hs:
        ts = sorted(common.handler_types(h))
        if ts == ["KeyError", "TypeError"]:
            out.append(ctx.ok(R, f, h, "a job lacking the (nested) key is skipped: KeyError / TypeError only"))
        else:
            out.append(ctx.inc(R, f, h, f"nested access handler catches {ts}"))
    # the value variable derives from doc within the same iteration
    # the value variable: the local that the filed key derives from (index[...] subscript), assigned inside the loop
    keyed = {x for a in adds for s in ast.walk(a.func.value) if isinstance(s, ast.Subscript) for x in names_in(s.slice)}
    # transitive closure over the locals assigned inside the loop: everything the filed key is computed from is either the visited document, a local
    # (re)computed in this iteration, or something the loop does not assign at all (parameters, globals, loop-invariant locals such as the split key)
    loop_assigned = {}
    for st in lp.body + lp.orelse:
        for n in ast.walk(st):
            if isinstance(n, ast.Assign):
                for t in n.targets:
                    if isinstance(t, ast.Name):
                        loop_assigned.setdefault(t.id, []).append(n)
    frontier, seen = set(keyed) & set(loop_assigned), set()
    vdefs = []
    while frontier:
        nm = frontier.pop()
        seen.add(nm)
        for n in loop_assigned.get(nm, []):
            vdefs.append(n)
            for x in names_in(n.value):
                if x in loop_assigned and x not in seen:
                    frontier.add(x)
    vnames = seen
    used = set().union(*[names_in(n.value) for n in vdefs]) if vdefs else set()
    foreign = {x for x in used if x in loop_assigned and x not in vnames} | ({idv} & used)
    ok = vdefs and not foreign and docv in used
    if ok:
        out.append(ctx.ok(R, f, vdefs[0], "the indexed value is re-derived from the visited document in every iteration"))
    else:
        out.append(ctx.inc(R, f, lp, "cannot show that the indexed value derives only from the visited document"))
    return out


@rule("C06-e")
def c06_e(ctx: Ctx):
    """The decision to index documents follows the prefixed filter that is evaluated."""
    R = "C06-e"
    f = ctx.fn("signac.project:Project._find_job_ids")
    out = []
    bi = [c for c in body_nodes(f) if isinstance(c, ast.Call) and "signac.project:Project._build_index" in common.targets_of(ctx, f, c)]
    finds = [c for c in body_nodes(f) if isinstance(c, ast.Call) and isinstance(c.func, ast.Attribute) and c.func.attr == "find"]
    if not bi or not finds:
        return [ctx.inc(R, f, f.node, "no _build_index / find call")]
    for c in bi:
        a = kwarg(c, "include_job_document") or (c.args[0] if c.args else None)
        if a is None:
            out.append(ctx.viol(R, f, c, "_find_job_ids never asks for job documents: every 'doc.' condition is evaluated against an index without documents"))
            continue
        fv = ctx.fold(a, f)
        if fv is not UNKNOWN:
            if fv:
                out.append(ctx.ok(R, f, c, "documents are always indexed"))
            else:
                out.append(ctx.viol(R, f, c, "include_job_document is constant False: 'doc.' conditions never match"))
            continue
        rk = [x for x in ast.walk(a) if isinstance(x, ast.Call) and "signac.filterparse:_root_keys" in common.targets_of(ctx, f, x)]
        if not rk:
            # hoisted: root_keys = set(_root_keys(filter)); ... "doc" in root_keys  -> inline one level (single-assignment locals only)
            a = inline(a, ctx.env(f), depth=2)
            rk = [x for x in ast.walk(a) if isinstance(x, ast.Call) and "signac.filterparse:_root_keys" in common.targets_of(ctx, f, x)]
        if not rk:
            # a predicate over the filter decides instead: it must look at *every* key of a (nested) mapping - a `return <result of the recursion>` inside the
            # loop over the items answers after the first logical operator and never sees the keys that follow it
            a2 = common.inline_at(ctx, f, a, c)
            preds = [t for x in ast.walk(a2) if isinstance(x, ast.Call) for t in common.targets_of_funcs(ctx, f, x) if not t.module.is_dep and t.module.name.startswith("signac")]
            early = None
            for g in preds:
                for lp in [n for n in body_nodes(g) if isinstance(n, ast.For) and isinstance(n.iter, ast.Call) and isinstance(n.iter.func, ast.Attribute) and n.iter.func.attr in ("items", "keys")]:
                    for r in [x for st in lp.body for x in ast.walk(st) if isinstance(x, ast.Return) and x.value is not None]:
                        if isinstance(r.value, ast.Constant) and r.value.value is True:
                            continue
                        if any(isinstance(y, ast.Call) and any(t.qual == g.qual for t in common.targets_of_funcs(ctx, g, y)) for y in ast.walk(r.value)):
                            early = (g, r)
            if early:
                g, r = early
                out.append(ctx.viol(R, g, r, f"{g.name} decides whether job documents are indexed, but `{stmt_key(r, 50)}` inside its loop over the filter's items returns the answer of the first "
                                    "logical operator it meets: keys that follow it in the same mapping are never examined, so {'$and': [...], 'doc.d': 1} is evaluated against an index "
                                    "without documents while {'doc.d': 1, '$and': [...]} is not - the result depends on key order", construct=f.qual + "|document-decision-scans-all-keys"))
            else:
                out.append(ctx.inc(R, f, c, f"include_job_document={canon(a)} does not use _root_keys"))
            continue
        arg = rk[0].args[0] if rk[0].args else None
        src = common.inline_at(ctx, f, arg, c) if arg is not None else None
        prefixed = src is not None and any(isinstance(x, ast.Call) and "signac.filterparse:_add_prefix" in common.targets_of(ctx, f, x) for x in ast.walk(src))
        same = arg is not None and finds[0].args and canon(arg) == canon(finds[0].args[0])
        member = isinstance(a, ast.Compare) and isinstance(a.ops[0], ast.In) and ctx.fold(a.left, f) == "doc"
        if prefixed and same and member:
            out.append(ctx.ok(R, f, c, "documents are indexed iff 'doc' is a root key of the prefixed filter that is then evaluated"))
        elif not member:
            out.append(ctx.viol(R, f, c, f"the document decision is {canon(a)}, not `'doc' in _root_keys(<filter>)`"))
        elif not prefixed:
            out.append(ctx.viol(R, f, c, "the document decision is taken on the filter before namespace prefixing"))
        else:
            out.append(ctx.viol(R, f, c, "the filter inspected for 'doc.' keys is not the filter that is evaluated"))
    return out


@rule("C06-f")
def c06_f(ctx: Ctx):
    """Set algebra of _find_result: unset accumulator vs empty result; complement / intersection / union."""
    R = "C06-f"
    f = ctx.fn(IDX + ":_SearchIndexer._find_result")
    out = []
    red = f.nested.get("reduce_results")
    if red is None:
        # the accumulation is written out in _find_result itself: `acc = None` ... `acc = <match>` under `acc is None`, `acc = acc.intersection(<match>)` otherwise
        inits = {t.id for n in f.node.body if isinstance(n, ast.Assign) and isinstance(n.value, ast.Constant) and n.value.value is None for t in n.targets if isinstance(t, ast.Name)}
        accs = [a for a in inits if any(isinstance(n, ast.Assign) and any(isinstance(t, ast.Name) and t.id == a for t in n.targets) and a in names_in(n.value) for n in body_nodes(f))]
        if len(accs) != 1:
            out.append(ctx.inc(R, f, f.node, "no nested reduce_results and no single running-result variable initialised to None"))
        else:
            acc = accs[0]
            n_ok = 0
            from ..cfg import cond_atoms
            work = []
            for n in body_nodes(f):
                if not (isinstance(n, ast.Assign) and len(n.targets) == 1 and isinstance(n.targets[0], ast.Name) and n.targets[0].id == acc):
                    continue
                if isinstance(n.value, ast.IfExp):
                    # `acc = A if C else B` is two assignments, each under its half of the condition
                    work.append((n, n.value.body, set(cond_atoms(n.value.test, True))))
                    work.append((n, n.value.orelse, set(cond_atoms(n.value.test, False))))
                else:
                    work.append((n, n.value, set()))
            for (n, v, extra) in work:
                if isinstance(v, ast.Constant) and v.value is None:
                    continue
                # an assignment that can only be reached while the running result is still unset (every reaching definition is the `= None` initialisation)
                if acc not in names_in(v):
                    try:
                        rd = common.reaching_defs(ctx, f, acc, n)
                    except Exception:
                        rd = []
                    if rd and all(isinstance(d, ast.Constant) and d.value is None for d in rd):
                        n_ok += 1
                        continue
                if acc in names_in(v):
                    isect = (isinstance(v, ast.Call) and isinstance(v.func, ast.Attribute) and v.func.attr == "intersection" and canon(v.func.value) == acc) or \
                            (isinstance(v, ast.BinOp) and isinstance(v.op, ast.BitAnd) and acc in (canon(v.left), canon(v.right)))
                    if isect:
                        facts = set(common.facts_at(ctx, f, n, "n")) | extra
                        if (f"{acc} is None", False) in facts:
                            n_ok += 1
                        else:
                            out.append(ctx.inc(R, f, n, f"intersection with the running result is not under `{acc} is not None`"))
                    else:
                        out.append(ctx.viol(R, f, n, f"later matches are not intersected with the running result: `{stmt_key(n, 60)}`"))
                    continue
                facts = set(common.facts_at(ctx, f, n, "n")) | extra
                only_none = (f"{acc} is None", True) in facts
                falsy = any((ft.replace(" ", "") == acc and not pol) or (ft.replace(" ", "") in (f"len({acc})==0", f"{acc}==set()") and pol) for (ft, pol) in facts)
                if only_none and not falsy:
                    n_ok += 1
                elif falsy or not any(acc in ft for (ft, _p) in facts):
                    out.append(ctx.viol(R, f, n, f"the running result is replaced whenever it is empty or unset (`{stmt_key(n, 50)}` under {sorted(facts)}): an empty intermediate result (e.g. from "
                                        "$not) is overwritten by the next sibling condition instead of absorbing it"))
                else:
                    out.append(ctx.inc(R, f, n, f"accumulator test not recognised (facts {sorted(facts)})"))
            if n_ok:
                out.append(ctx.ok(R, f, f.node, f"the first match is recognised by `{acc} is None`", construct=f.qual + "|first-match"))
                out.append(ctx.ok(R, f, f.node, "later matches are intersected with the running result", construct=f.qual + "|intersect"))
    else:
        tests = [n for n in body_nodes(red) if isinstance(n, ast.If)]
        par0 = red.params[0] if red.params else "match"
        cex = [n for n in body_nodes(red) if isinstance(n, ast.Assign) and isinstance(n.value, ast.IfExp) and (canon(n.value.body) == par0 or canon(n.value.orelse) == par0)]
        if not tests and cex:
            from ..cfg import cond_atoms
            for a in cex:
                acc = a.targets[0].id if isinstance(a.targets[0], ast.Name) else "?"
                pol = canon(a.value.body) == par0
                atoms = set(cond_atoms(a.value.test, pol))
                if (f"{acc} is None", True) in atoms and not any(t.replace(" ", "") == acc for (t, _p) in atoms):
                    out.append(ctx.ok(R, red, a, f"the first match is recognised by `{acc} is None`"))
                elif any((t.replace(" ", "") == acc and not p2) or (t.replace(" ", "") in (f"len({acc})==0",) and p2) for (t, p2) in atoms):
                    out.append(ctx.viol(R, red, a, f"the running result is replaced whenever it is empty or unset (`{canon(a.value)[:60]}`): an empty intermediate result (e.g. from $not or an "
                                        "empty $or) is overwritten by the next sibling condition instead of absorbing it"))
                else:
                    out.append(ctx.inc(R, red, a, f"accumulator test not recognised: {sorted(atoms)}"))
        elif not tests:
            out.append(ctx.inc(R, red, red.node, "reduce_results has no recognisable first-match test"))
        if tests:
            # which assignment *replaces* the running result by the new match (value is the parameter), and under which facts?
            par = red.params[0] if red.params else "match"
            repl = [n for n in body_nodes(red) if isinstance(n, ast.Assign) and len(n.targets) == 1 and isinstance(n.targets[0], ast.Name) and canon(n.value) == par]
            t = canon(tests[0].test).replace(" ", "")
            if not repl:
                out.append(ctx.inc(R, red, tests[0], "accumulator test not recognised: " + t))
            for rp in repl:
                acc = rp.targets[0].id
                facts = common.facts_at(ctx, red, rp, "n")
                only_none = (f"{acc} is None", True) in facts
                falsy = any((ft.replace(" ", "") == acc and not pol) or (ft.replace(" ", "") in (f"len({acc})==0", f"{acc}==set()") and pol) for (ft, pol) in facts)
                if only_none and not falsy:
                    out.append(ctx.ok(R, red, tests[0], f"the first match is recognised by `{acc} is None`"))
                    inter = [c for c in body_nodes(red) if isinstance(c, ast.Call) and isinstance(c.func, ast.Attribute) and c.func.attr in ("intersection",)]
                    inter += [c for c in body_nodes(red) if isinstance(c, ast.BinOp) and isinstance(c.op, ast.BitAnd)]
                    if inter:
                        out.append(ctx.ok(R, red, inter[0], "later matches are intersected with the running result"))
                    else:
                        out.append(ctx.viol(R, red, red.node, "later matches are not intersected with the running result"))
                elif falsy or not facts:
                    out.append(ctx.viol(R, red, tests[0], f"the running result is replaced whenever it is empty or unset (`{canon(tests[0].test)}`): an empty intermediate result (e.g. from $not) is "
                                        "overwritten by the next sibling condition instead of absorbing it"))
                else:
                    out.append(ctx.inc(R, red, tests[0], f"accumulator test not recognised: {t} (facts {sorted(facts)})"))
    # $not complement
    for n in body_nodes(f):
        if isinstance(n, ast.Call) and isinstance(n.func, ast.Attribute) and n.func.attr == "difference" and canon(n.func.value) == "set(self)":
            a = n.args[0] if n.args else None
            src = common.inline_at(ctx, f, a, n) if a is not None else None
            if src is not None and isinstance(src, ast.Call) and canon(src.func) == "self._find_result":
                out.append(ctx.ok(R, f, n, "$not is the complement of its operand's result relative to all ids"))
    if not any(r.detail.startswith("$not") for r in out):
        out.append(ctx.inc(R, f, f.node, "$not complement shape not recognised"))
    ors = [c for c in body_nodes(f) if isinstance(c, ast.Call) and isinstance(c.func, ast.Attribute) and c.func.attr in ("update", "union") and "or_results" in canon(c.func.value)]
    ors += [c for c in body_nodes(f) if isinstance(c, ast.AugAssign) and isinstance(c.op, ast.BitOr) and "or_results" in canon(c.target)]
    ors += [c for c in body_nodes(f) if isinstance(c, ast.BinOp) and isinstance(c.op, ast.BitOr) and "or_results" in canon(c)]
    if ors:
        out.append(ctx.ok(R, f, ors[0], "$or unites the operand results"))
    else:
        out.append(ctx.inc(R, f, f.node, "$or union shape not recognised"))
    # every early `return set()` is guarded by the running result being empty
    cfg = ctx.cfg(f)
    for n in cfg.stmt_nodes():
        if isinstance(n.ast, ast.Return) and n.ast.value is not None and canon(n.ast.value) == "set()":
            facts = ctx.facts(f, "n")[n.id] or frozenset()
            if ("result_ids", False) in facts:
                out.append(ctx.ok(R, f, n.ast, "early exit with the empty set only when the running result is empty"))
            else:
                out.append(ctx.viol(R, f, n.ast, f"early exit with the empty set under {sorted(facts)}"))
    return out


@rule("C06-g")
def c06_g(ctx: Ctx):
    """Expression dispatch and key flattening: $exists complement, int/float dual lookup, dotted-key accumulation, list hashing."""
    R = "C06-g"
    out = []
    fe = ctx.fn(IDX + ":_SearchIndexer._find_expression")
    # $exists: match if value else all - match
    ex = [n for n in body_nodes(fe) if isinstance(n, ast.Return) and isinstance(n.value, ast.IfExp)]
    okx = False
    for r in ex:
        v = r.value
        b = common.pmatch("M if V else set(self).difference(M)", v)
        if b is not None and canon(b["V"]) == fe.params[-1] and isinstance(b["M"], ast.Name):
            okx = True
            out.append(ctx.ok(R, fe, r, "$exists: true -> ids having the key, false -> all ids minus those"))
    if not okx:
        out.append(ctx.inc(R, fe, fe.node, "$exists branch shape not recognised"))
    # dual lookup
    unions = [n for n in body_nodes(fe) if isinstance(n, ast.Return) and n.value is not None and ".union(" in canon(n.value)]
    dual = False
    for r in unions:
        parts = set()
        for nm in [x for x in ast.walk(r.value) if isinstance(x, ast.Name)]:
            d = common.reaching_def(ctx, fe, nm.id, r)
            if d is not None:
                vp = fe.params[-1]
                b = common.pmatch("I.get(A, D)", d) or common.pmatch("I.get(A)", d)
                a = canon(b["A"]).replace(" ", "") if b else ""
                if b and any(isinstance(x, ast.Assign) and any(isinstance(t, ast.Name) and t.id == vp for t in x.targets) for x in body_nodes(fe)):
                    # the filter value is re-bound inside the function: look through the re-binding that reaches this look-up
                    rd = [x for x in common.reaching_defs(ctx, fe, vp, r) if isinstance(x, ast.AST)]
                    if rd and any(canon(x).replace(" ", "") in (f"float({vp})", f"_float({vp})") for x in rd) and a.startswith("int("):
                        a = "int(float(" + vp + "))"
                if a == f"_float({vp})" or a == f"float({vp})":
                    parts.add("float")
                if a == f"int({vp})":
                    parts.add("int")
                elif a.startswith("int("):
                    parts.add("int-from-float")
        facts = common.facts_at(ctx, fe, r, "n")
        guard = any(pol and "is_integer()" in t for (t, pol) in facts)
        if "int-from-float" in parts:
            out.append(ctx.viol(R, fe, r, "the int key of the dual look-up is derived from the value converted to float: integers that are not representable as a double (|v| > 2**53) are looked "
                                "up under a neighbouring integer, so {'seed': 2**53+1} misses its job (and finds the job of 2**53)"))
            dual = True
        elif parts == {"float", "int"} and guard:
            dual = True
            out.append(ctx.ok(R, fe, r, "integer-valued numbers are looked up under both their int and their float key, and the results united"))
        elif parts:
            out.append(ctx.viol(R, fe, r, f"the equality look-up for integer-valued numbers consults only the {sorted(parts)} key(s): {{'x': 4}} and {{'x': 4.0}} no longer select the same jobs"))
    if not dual and not any(r.status == "VIOLATION" for r in out):
        out.append(ctx.inc(R, fe, fe.node, "int/float dual look-up not recognised"))
    # plain equality: index.get(value, set())
    plain = [n for n in body_nodes(fe) if isinstance(n, ast.Return) and n.value is not None and (common.pmatch("I.get(V, set())", n.value) or {}).get("V") is not None
             and canon(common.pmatch("I.get(V, set())", n.value)["V"]) == fe.params[-1]]
    if plain:
        out.append(ctx.ok(R, fe, plain[0], "other values are looked up under their own typed key"))
    # flattening
    fl = ctx.fn("signac._utility:_nested_dicts_to_dotted_keys")
    rec = [c for c in body_nodes(fl) if isinstance(c, ast.Call) and fl.qual in common.targets_of(ctx, fl, c)]
    if not rec:
        out.append(ctx.inc(R, fl, fl.node, "no recursion in _nested_dicts_to_dotted_keys"))
    for c in rec:
        k = kwarg(c, "key") or (c.args[1] if len(c.args) > 1 else None)
        kk = common.inline_at(ctx, fl, k, c) if k is not None else None
        t = canon(kk).replace(" ", "") if kk is not None else ""
        kp = fl.params[1] if len(fl.params) > 1 else "key"
        b = common.pmatch("K if P is None else '.'.join((P, K))", kk)
        if b is not None and canon(b["P"]) == kp and isinstance(b["K"], ast.Name):
            out.append(ctx.ok(R, fl, c, "nested keys are accumulated as parent.child"))
        elif k is None or kp not in names_in(kk):
            out.append(ctx.viol(R, fl, c, f"the recursion passes key={canon(k) if k is not None else 'nothing'}: the parent key is dropped, nested filter / state point keys collapse to their last component"))
        else:
            out.append(ctx.inc(R, fl, c, "key accumulation shape: " + t[:60]))
    th = [c for c in body_nodes(fl) if isinstance(c, ast.Call) and "signac._utility:_to_hashable" in common.targets_of(ctx, fl, c)]
    if th:
        facts = common.facts_at(ctx, fl, th[0], "n")
        out.append(ctx.ok(R, fl, th[0], "list values are converted to hashable tuples before they are used as index keys / set members"))
    else:
        out.append(ctx.viol(R, fl, fl.node, "list values are not converted with _to_hashable: filters and diffs on list-valued keys raise TypeError"))
    h = ctx.fn("signac._utility:_to_hashable")
    rets = [canon(r.value).replace(" ", "") for r in body_nodes(h) if isinstance(r, ast.Return) and r.value is not None]
    if any(t.startswith(("tuple(_to_hashable(", "tuple((_to_hashable(")) for t in rets):
        out.append(ctx.ok(R, h, h.node, "_to_hashable converts nested lists recursively"))
    else:
        out.append(ctx.inc(R, h, h.node, f"_to_hashable returns {rets}"))
    # equal mappings must hash equally: _hashable_dict inherits dict.__eq__ (order-insensitive, 1 == 1.0 == True), so its hash must be computed from the
    # unordered item set with the items' own hashes - never from a text serialisation
    hd = ctx.prog.classes.get("signac._utility:_hashable_dict")
    hh = hd.methods.get("__hash__") if hd is not None else None
    kh = "signac._utility:_hashable_dict|hash-eq"
    th0 = ctx.fn("signac._utility:_to_hashable")
    maprets = []
    for r in [x for x in body_nodes(th0) if isinstance(x, ast.Return) and x.value is not None]:
        facts = common.facts_at(ctx, th0, r, "n")
        if any(pol and ("dict" in t or "Mapping" in t) for (t, pol) in facts):
            maprets.append(r)
    km = "signac._utility:_to_hashable|mapping-stays-mapping"
    for r in maprets:
        v = r.value
        cq = ctx.prog.resolve_class_name(th0.module, dotted(v.func)) if isinstance(v, ast.Call) and dotted(v.func) else None
        if cq and any(b.split(":")[-1] in ("dict", "Mapping", "OrderedDict") or "dict" in b for b in ctx.prog.classes[cq].bases):
            out.append(ctx.ok(R, th0, r, "a mapping inside a list value stays a (hashable) mapping", construct=km))
        elif isinstance(v, ast.Call) and isinstance(v.func, ast.Name) and v.func.id in ("tuple", "frozenset", "sorted", "str", "repr"):
            out.append(ctx.viol(R, th0, r, f"a mapping inside a list value is converted to {canon(v)[:50]}: it is no longer a mapping, so detect_schema / diff_jobs report list-of-mapping values as "
                                "tuples of pairs (the diff no longer reconstructs the state point) and [{'a': 1}] collides with [[['a', 1]]]", construct=km))
        else:
            out.append(ctx.inc(R, th0, r, f"mapping branch of _to_hashable returns {canon(v)[:50]}", construct=km))
    if hh is None and any(x.status == "VIOLATION" and x.construct == km for x in out):
        pass
    elif hh is None:
        out.append(ctx.inc(R, None, None, "_hashable_dict.__hash__ not found", construct=kh))
    else:
        rets = [r for r in body_nodes(hh) if isinstance(r, ast.Return) and r.value is not None]
        ser = [c for c in body_nodes(hh) if isinstance(c, ast.Call) and (common.ext_name(ctx, hh, c) in ("json.dumps", "builtins.str", "builtins.repr", "pickle.dumps", "builtins.format")
                                                                       or (isinstance(c.func, ast.Attribute) and c.func.attr in ("dumps", "format", "encode")))]
        okshape = any(common.pmatch("hash(tuple(sorted(self.items())))", r.value) is not None or common.pmatch("hash(frozenset(self.items()))", r.value) is not None for r in rets)
        unsorted = [r for r in rets if common.pmatch("hash(tuple(self.items()))", r.value) is not None or common.pmatch("hash(tuple(self))", r.value) is not None
                    or common.pmatch("hash(tuple(self.values()))", r.value) is not None or common.pmatch("hash(tuple(self.keys()))", r.value) is not None]
        if unsorted:
            out.append(ctx.viol(R, hh, unsorted[0], f"_hashable_dict.__hash__ is `{canon(unsorted[0].value)}`: it depends on the insertion order (or ignores the values), while dict equality "
                                "does not: [{'kind': 'heat', 'T': 300}] is no longer found by the equal filter value [{'T': 300, 'kind': 'heat'}], and $not of it returns everything", construct=kh))
        elif ser:
            out.append(ctx.viol(R, hh, ser[0], f"_hashable_dict.__hash__ hashes a text serialisation ({canon(ser[0])[:40]}): mappings that compare equal (other key order, 1 vs 1.0 vs True) "
                                "get different hashes, so an index look-up with a list-of-mappings value misses jobs that `==` accepts and $not returns too many", construct=kh))
        elif okshape:
            out.append(ctx.ok(R, hh, rets[0], "_hashable_dict hashes its unordered item set with the items' own hashes (consistent with dict equality)", construct=kh))
        else:
            out.append(ctx.inc(R, hh, hh.node, f"_hashable_dict.__hash__ has an unrecognised shape: {[canon(r.value)[:50] for r in rets]}", construct=kh))
    bi = ctx.fn(IDX + ":_SearchIndexer.build_index")
    if any(isinstance(c, ast.Call) and "signac._utility:_to_hashable" in common.targets_of(ctx, bi, c) for c in body_nodes(bi)):
        out.append(ctx.ok(R, bi, bi.node, "build_index files list values under the same hashable form that filters are flattened to"))
    else:
        out.append(ctx.viol(R, bi, bi.node, "build_index does not convert list values with _to_hashable although filters do: list-valued keys never match"))
    return out


@rule("C06-h")
def c06_h(ctx: Ctx):
    """Result sets handed out by index look-ups / sub-evaluations are never mutated in place; evaluator functions keep no cross-query state."""
    from .lints import inplace_on_alias, no_memoisation
    R = "C06-h"
    quals = [IDX + ":_SearchIndexer._find_result", IDX + ":_SearchIndexer._find_expression", IDX + ":_find_with_index_operator", IDX + ":_SearchIndexer.find"]
    out = inplace_on_alias(ctx, R, quals, ("_find_result", "_find_expression", "get", "find", "build_index", "_get_index", "setdefault"),
                           "the bucket of the value index (or another operand's result) is changed, so a later condition on the same key in the same filter sees polluted data")
    out += no_memoisation(ctx, R, [IDX + ":_SearchIndexer.build_index", "signac.project:Project._build_index"],
                          "whether a job matches must depend only on the job's current data")
    # the value index is rebuilt per queried key: the indexer keeps no per-instance store of indexes / results
    ci = ctx.prog.cls(IDX + ":_SearchIndexer")
    stores = []
    for m in ci.methods.values():
        for n in body_nodes(m):
            if isinstance(n, ast.Assign):
                for t in n.targets:
                    if isinstance(t, ast.Attribute) and canon(t.value) == "self":
                        stores.append((m, n, t.attr))
                    if isinstance(t, ast.Subscript) and isinstance(t.value, ast.Attribute) and canon(t.value.value) == "self":
                        stores.append((m, n, t.value.attr))
            if isinstance(n, ast.Call) and isinstance(n.func, ast.Attribute) and n.func.attr == "setdefault" and isinstance(n.func.value, ast.Attribute) and canon(n.func.value.value) == "self":
                stores.append((m, n, n.func.value.attr))
    if stores:
        m, n, a = stores[0]
        out.append(ctx.viol(R, m, n, f"_SearchIndexer.{m.name} keeps state in self.{a}: indexes / result sets that outlive one condition are shared between the conditions of a filter "
                            "(and between queries), so a set handed out for one condition can be seen - or changed - by another", construct=IDX + "|instance-state"))
    else:
        out.append(ctx.ok(R, None, None, "_SearchIndexer methods keep no per-instance state: every condition builds its own value index", construct=IDX + "|instance-state"))
    return out


@rule("C06-i")
def c06_i(ctx: Ctx):
    """None is the only 'no parent key' sentinel when nested keys are flattened (the empty string is a legal JSON key)."""
    from .lints import sentinel_discipline
    return sentinel_discipline(ctx, "C06-i", [("signac._utility:_nested_dicts_to_dotted_keys", "key", "the empty string is a legal key: treated as 'no parent' the keys below it are flattened without their prefix and collide with top-level keys")])


@rule("C06-j")
def c06_j(ctx: Ctx):
    """Namespace prefixing decides by whole key components (same obligation as the _add_prefix part of C07-b)."""
    from .c07 import c07_b
    res = [r for r in c07_b(ctx) if r.function.endswith(":_add_prefix")]
    for r in res:
        r.rule = "C06-j"
    return res


def _near_branch(f):
    for n in ast.walk(f.node):
        if isinstance(n, ast.If) and isinstance(n.test, ast.Compare) and len(n.test.ops) == 1 and isinstance(n.test.ops[0], ast.Eq) \
                and isinstance(n.test.comparators[0], ast.Constant) and n.test.comparators[0].value == "$near" and canon(n.test.left) == "op":
            return n
    return None


@rule("C06-k")
def c06_k(ctx: Ctx):
    """$near: for every documented argument shape (x, [x], [x, rel], [x, rel, abs]) the reference value and the two tolerances that reach math.isclose are the
    given ones, the missing ones default to rel_tol=1e-9, abs_tol=0.0 (abstract evaluation of the branch per shape)."""
    from .. import absint as A
    R = "C06-k"
    f = ctx.fn(IDX + ":_find_with_index_operator")
    br = _near_branch(f)
    if br is None:
        return [ctx.inc(R, f, f.node, "no `op == '$near'` branch found")]
    out = []
    shapes = [("x", A.Sym("x"), (A.Sym("x"), A.Const(1e-9), A.Const(0.0)))]
    for kind in ("list", "tuple"):
        a = [A.Sym(f"a{i}") for i in range(3)]
        shapes += [(f"{kind}[x]", A.Seq((a[0],), kind), (a[0], A.Const(1e-9), A.Const(0.0))),
                   (f"{kind}[x, rel]", A.Seq((a[0], a[1]), kind), (a[0], a[1], A.Const(0.0))),
                   (f"{kind}[x, rel, abs]", A.Seq((a[0], a[1], a[2]), kind), (a[0], a[1], a[2]))]
    for label, shape, want in shapes:
        k = f"{f.qual}|near-shape:{label}"
        evl = A.Evaluator({"argument": shape, "op": A.Const("$near")})
        try:
            evl.run(br.body)
            clo = evl.closures.get("op")
            if clo is None:
                # functools.partial(isclose, rel_tol=.., abs_tol=..) bound to a local: the evaluation loop calls it as p(value, argument)
                parts = [v for v in evl.env.values() if isinstance(v, A.App) and v.fn == "partial:isclose"]
                if len(parts) == 1 and all(isinstance(x, tuple) and x[0] == "kw" for x in parts[0].args):
                    kw = {x[1]: x[2] for x in parts[0].args}
                    got = (evl.env.get("argument", A.UNK), kw.get("rel_tol", A.Const(1e-9)), kw.get("abs_tol", A.Const(0.0)))
                    if got == want:
                        out.append(ctx.ok(R, f, br, f"$near argument {label}: isclose(value, {got[0]}, rel_tol={got[1]}, abs_tol={got[2]})", construct=k))
                    else:
                        out.append(ctx.viol(R, f, br, f"$near argument {label}: isclose receives (reference={got[0]}, rel_tol={got[1]}, abs_tol={got[2]}) but the documented meaning is "
                                            f"(reference={want[0]}, rel_tol={want[1]}, abs_tol={want[2]}): jobs are matched with a tolerance the filter did not ask for", construct=k))
                    continue
                raise A.GiveUp("the branch does not define the comparison closure `op`", br)
            fn = clo[0]
            calls = [c for c in ast.walk(fn) if isinstance(c, ast.Call) and (dotted(c.func) or "").split(".")[-1] == "isclose"]
            if len(calls) != 1 or len(fn.args.args) != 2:
                raise A.GiveUp("comparison closure is not a single isclose(value, argument, ...) call", fn)
            c = calls[0]
            inner = A.Evaluator(dict(evl.env))
            inner.env[fn.args.args[0].arg] = A.Sym("value")
            inner.env[fn.args.args[1].arg] = evl.env.get("argument", A.UNK)   # the evaluator loop calls op(value, argument)
            pos = [inner.ev(x) for x in c.args]
            kw = {kk.arg: inner.ev(kk.value) for kk in c.keywords}
            if len(pos) != 2 or pos[0] != A.Sym("value"):
                raise A.GiveUp("isclose is not called as isclose(value, reference, ...)", c)
            got = (pos[1], kw.get("rel_tol", A.Const(1e-9)), kw.get("abs_tol", A.Const(0.0)))
            if got == want:
                out.append(ctx.ok(R, f, c, f"$near argument {label}: isclose(value, {got[0]}, rel_tol={got[1]}, abs_tol={got[2]})", construct=k))
            else:
                out.append(ctx.viol(R, f, c, f"$near argument {label}: isclose receives (reference={got[0]}, rel_tol={got[1]}, abs_tol={got[2]}) but the documented meaning is "
                                    f"(reference={want[0]}, rel_tol={want[1]}, abs_tol={want[2]}): jobs are matched with a tolerance the filter did not ask for", construct=k))
        except A.Raised as ex:
            out.append(ctx.viol(R, f, br, f"$near argument {label}, a documented form, raises {ex.exc}", construct=k))
        except A.GiveUp as g:
            out.append(ctx.inc(R, f, g.node if g.node is not None and hasattr(g.node, "lineno") else br, f"$near branch not fully modelled for shape {label}: {g.why}", construct=k))
    return out


@rule("C06-l")
def c06_l(ctx: Ctx):
    """Index builders treat every job independently: nothing read while indexing one job was computed for another."""
    from .lints import per_item_loops, late_binding_in_loops, no_stamp_validated_cache
    return no_stamp_validated_cache(ctx, "C06-l", ("signac._search_indexer", "signac.project", "signac.job"),
                                    "find_jobs keeps answering from the old document / state point") + \
        late_binding_in_loops(ctx, "C06-l", ("signac._search_indexer", "signac.project")) + per_item_loops(ctx, "C06-l", [
        ("signac.project:Project._build_index", "a job without (readable) document is indexed with the previous job's document, so doc.* filters depend on which other jobs exist and on the listing order"),
        (IDX + ":_SearchIndexer.build_index", "a job lacking the key is filed under the previous job's value"),
        ("signac.project:Project._find_job_ids", "the result depends on which other jobs exist"),
    ])


@rule("C06-m")
def c06_m(ctx: Ctx):
    """The per-job data that filters are evaluated against is the job's own: cache entries pair an id with its own state point (from C08-g)."""
    from .c08 import c08_g
    res = c08_g(ctx)
    for r in res:
        r.rule = "C06-m"
    # ... and its own *whole* document: what is filed under 'doc' is the decoded document file, not a projection chosen by a second reading of the filter
    R = "C06-m"
    bi = ctx.fn("signac.project:Project._build_index")
    k = bi.qual + "|whole-document"
    # every listed job is handed to the index - with its document or, if it has none, without: no path through the per-job loop body skips the yield
    bcfg = ctx.cfg(bi)
    ky = bi.qual + "|every-job-yielded"
    lps = [n for n in bcfg.stmt_nodes() if n.kind == "for" and isinstance(n.ast, ast.For)]
    ynodes = {i for y in body_nodes(bi) if isinstance(y, (ast.Yield, ast.YieldFrom)) for i in ctx.node_ids(bi, y)}
    if not lps or not ynodes:
        res.append(ctx.inc(R, bi, bi.node, "_build_index: per-job loop / yield not found", construct=ky))
    else:
        hd = lps[0]
        body_first = {i for st in hd.ast.body[:1] for i in bcfg.node_ids_for(st)}
        skip = bcfg.path(min(body_first), {hd.id}, blocked=ynodes, kinds="nx") if body_first else None
        if skip is not None:
            res.append(ctx.viol(R, bi, hd.ast, "a path through the per-job loop of _build_index returns to the loop head without yielding the job: such jobs (e.g. those without a document "
                                "file) are missing from the index whenever documents are indexed, so {'doc.d': {'$exists': False}}, $not and $or over doc keys lose them",
                                witness=bcfg.describe_path(skip), construct=ky))
        else:
            res.append(ctx.ok(R, bi, hd.ast, "every listed job is yielded to the index (with or without a document)", construct=ky))
    docsets = [n for n in body_nodes(bi) if isinstance(n, ast.Assign) and any(isinstance(t, ast.Subscript) and ctx.fold(t.slice, bi) == "doc" for t in n.targets)]
    if not docsets:
        res.append(ctx.inc(R, bi, bi.node, "_build_index does not file the job document under 'doc'", construct=k))
    for a in docsets:
        srcs = [a.value] if not isinstance(a.value, ast.Name) else [d for d in common.reaching_defs(ctx, bi, a.value.id, a)]
        proj = [d for d in srcs if isinstance(d, (ast.DictComp, ast.Dict)) or (isinstance(d, ast.Call) and isinstance(d.func, ast.Name) and d.func.id in ("dict", "filter"))]
        whole = [d for d in srcs if isinstance(d, ast.Call) and ((common.ext_name(ctx, bi, d) or "") in ("json.loads", "json.load") or any(not t.module.is_dep for t in common.targets_of_funcs(ctx, bi, d)))]
        if proj:
            res.append(ctx.viol(R, bi, a, f"the search index receives a projection of the job document ({canon(proj[0])[:60]}) instead of the document: which keys survive is decided by a "
                                "second parser of the filter, and spellings it reads differently from the evaluator (e.g. {'doc': {'a.b': 1}}) make every job look as if the key were missing",
                                construct=k))
        elif whole and len(whole) == len(srcs):
            res.append(ctx.ok(R, bi, a, "the decoded document file is filed under 'doc' as a whole", construct=k))
        else:
            res.append(ctx.inc(R, bi, a, "origin of the value filed under 'doc' not recognised", construct=k))
    return res


@rule("C06-n")
def c06_n(ctx: Ctx):
    """Every token of the simple filter syntax takes part in the filter (no pairing that drops an odd last token)."""
    from .lints import no_pairwise_zip_of_slices
    return no_pairwise_zip_of_slices(ctx, "C06-n", ("signac.filterparse",))


RULES = [c06_l, c06_a, c06_b, c06_c, c06_d, c06_e, c06_f, c06_g, c06_h, c06_i, c06_j, c06_k, c06_m, c06_n]
