"""C17 - a linked view is an exact, self-healing picture of the selected jobs."""
import ast

from ..engine import rule, Ctx
from ..core import UNKNOWN, dotted, kwarg, body_nodes, inline, stmt_key, canon, walk_no_nested, names_in
from . import common
from .c16 import c16_a, c16_b

PROP = "C17"
FLOOR = 10
EXPLANATION = (
    "Decided (structural necessary conditions): (a) create_linked_view validates before it mutates: the separator check, "
    "the path function construction (with its uniqueness check, C16-a) and the leaf/node check (C16-b) precede _update_view "
    "on every path; (b) every link that is created derives from iterating the selected jobs, never from a second "
    "enumeration of the project; (c) the analysis of an existing view walks the whole tree (no pruning of sub-directories), "
    "and a kept link is re-pointed whenever its resolved target differs from the job directory, without an existence "
    "precondition (dangling links must be repaired too); obsolete links are removed before new ones are made, deepest first."
    ' (f) The link-building and view-updating loops carry nothing between jobs / links.'
    ' The tree of existing links and the colouring of wanted links split paths into components the same way.'
    ' The walk over an existing view reads both name lists of os.walk (a dangling link is a file name); the view analysis is judged in _analyze_view or, when it was written out, in _update_view (C17-c); (j) `signac view` with an empty selection still updates the view (C17-j).'
)
UNDECIDED = "Incremental result == from-scratch result over histories, absence of empty directories and exact link targets are not decided."

LV = "signac.linked_view"
CLV = LV + ":create_linked_view"


@rule("C17-a")
def c17_a(ctx: Ctx):
    """Validate before mutate in create_linked_view."""
    R = "C17-a"
    f = ctx.fn(CLV)
    cfg = ctx.cfg(f)
    out = []
    upd = common.stmts_containing_call_to(ctx, f, quals=(LV + ":_update_view",))
    if not upd:
        return [ctx.inc(R, f, f.node, "create_linked_view does not call _update_view")]
    needs = [
        ("path function (with uniqueness check)", common.ids_of(ctx, f, [s for s, _ in common.stmts_containing_call_to(ctx, f, quals=("signac.import_export:_make_path_function",))])),
        ("leaf/node consistency check", common.ids_of(ctx, f, [s for s, _ in common.stmts_containing_call_to(ctx, f, quals=("signac.import_export:_check_directory_structure_validity",))])),
    ]
    sep = {n.id for n in cfg.stmt_nodes() if n.kind == "test" and isinstance(n.ast, ast.If) and "bad_items" in canon(n.ast.test)
           and any(isinstance(x, ast.Raise) for st in n.ast.body for x in ast.walk(st))}
    needs.append(("separator check of keys and values", sep))
    for st, call in upd:
        for what, ids in needs:
            bad = None
            for uid in cfg.node_ids_for(st):
                bad = bad or cfg.must_pass_before(uid, ids, kinds="n")
            k = f"{CLV}|before-update:{what.split()[0]}"
            if bad is None and ids:
                out.append(ctx.ok(R, f, st, f"{what} precedes every modification of the view", construct=k))
            else:
                out.append(ctx.viol(R, f, st, f"the view can be modified before / without the {what}: an input that cannot be represented alters the existing view", construct=k,
                                    witness=cfg.describe_path(bad) if bad else None))
    # separator check covers keys and values
    txt = " ".join(canon(n) for n in body_nodes(f) if isinstance(n, ast.Assign))
    # keys: `.keys()` or plain iteration over the state point mapping; values: `.values()`; the test: os.sep in <item>
    key_iter = ".keys()" in txt or any(isinstance(g, ast.comprehension) and isinstance(g.iter, ast.Call) and canon(g.iter).endswith("statepoint()") for g in body_nodes(f))
    sep_test = any(isinstance(c, ast.Compare) and len(c.ops) == 1 and isinstance(c.ops[0], ast.In) and canon(c.left) in ("os.sep", "os.path.sep") for c in body_nodes(f))
    if key_iter and ".values()" in txt and sep_test:
        out.append(ctx.ok(R, f, f.node, "both state point keys and values are examined for the path separator", construct=CLV + "|sep-coverage"))
    else:
        out.append(ctx.inc(R, f, f.node, "separator check shape not recognised", construct=CLV + "|sep-coverage"))
    return out


@rule("C17-b")
def c17_b(ctx: Ctx):
    """Every link derives from the selection."""
    R = "C17-b"
    f = ctx.desugared(ctx.fn(CLV))
    out = []
    env = ctx.env(f)
    # roles: the link table is what _update_view receives; the selection is the local bound under the `job_ids is None` decision
    uvc = [c for c in body_nodes(f) if isinstance(c, ast.Call) and (LV + ":_update_view") in common.targets_of(ctx, f, c) and len(c.args) >= 2 and isinstance(c.args[1], ast.Name)]
    LINKS = uvc[0].args[1].id if uvc else "links"
    selv = [n for n in body_nodes(f) if isinstance(n, ast.Assign) and len(n.targets) == 1 and isinstance(n.targets[0], ast.Name)
            and any(t == "job_ids is None" for (t, _) in common.facts_at(ctx, f, n, "n")) and "project" in names_in(n.value)]
    JOBS = selv[0].targets[0].id if selv else "jobs"
    # the link table and every local table that is assigned to it wholesale (links = links_2)
    tables = {LINKS}
    for n in body_nodes(f):
        if isinstance(n, ast.Assign) and isinstance(n.value, ast.Name) and any(isinstance(t, ast.Name) and t.id in tables for t in n.targets):
            tables.add(n.value.id)
    stores = [n for n in body_nodes(f) if isinstance(n, ast.Assign) and any(isinstance(t, ast.Subscript) and canon(t.value) in tables for t in n.targets)]
    if not stores:
        return [ctx.inc(R, f, f.node, "no store into the link table")]
    pm = ctx.parents(f)
    for s in stores:
        cur = pm.get(id(s))
        lp = None
        while cur is not None:
            if isinstance(cur, ast.For):
                lp = cur
                break
            cur = pm.get(id(cur))
        if lp is None:
            out.append(ctx.inc(R, f, s, "link stored outside a loop"))
            continue
        it = canon(lp.iter)
        if it == JOBS:
            out.append(ctx.ok(R, f, s, "links are created for the jobs of the selection"))
            v = canon(common.inline_at(ctx, f, s.value, s))
            k = CLV + "|link-target"
            jv = canon(lp.target)
            if v in (jv + ".path", jv + ".ws"):
                out.append(ctx.ok(R, f, s, "the link target is the job directory as the project spells it (the relative link is computed lexically from it)", construct=k))
            elif "realpath" in v or "resolve" in v:
                out.append(ctx.viol(R, f, s, f"the link target is {v}: _update_view computes the relative link lexically against the un-resolved view prefix, so when the project is reached through "
                                    "a symbolic link at a different depth every link in the view dangles", construct=k))
            else:
                out.append(ctx.inc(R, f, s, f"link target is {v}", construct=k))
        elif "find_jobs" in it or it in ("project", "iter(project)", "list(project)"):
            # the known defect of the reference tree does this only when the link table came out empty; anything wider is another violation
            facts = common.expand_facts(ctx, f, common.facts_at(ctx, f, s, "n"))
            only_if_empty = any((t in tables and not pol) or (t.replace(" ", "") in {f"len({x})==0" for x in tables} and pol) for (t, pol) in facts)
            guard = "" if only_if_empty else "|" + ";".join(sorted(f"{t}={pol}" for (t, pol) in facts if "job_ids" not in t))[:80]
            out.append(ctx.viol(R, f, s, f"a link is created while iterating {it}, a second enumeration of the whole project"
                                + (": with an empty selection (job_ids=[]) an unselected job is linked" if only_if_empty else
                                   f" (under {sorted(t for (t, p) in facts if p)[:2]}): a selection that does not cover the project gets a link to a job it does not contain"),
                                construct=CLV + "|links-from-project" + guard))
        else:
            out.append(ctx.inc(R, f, s, f"links stored while iterating {it}"))
    # selection: job_ids is None <=> whole project
    sel = [n for n in body_nodes(f) if isinstance(n, ast.Assign) and any(isinstance(t, ast.Name) and t.id == JOBS for t in n.targets)]
    for a in sel:
        facts = common.facts_at(ctx, f, a, "n")
        t = canon(a.value)
        if t in ("list(project)", "list(project.find_jobs())"):
            if ("job_ids is None", True) in facts:
                out.append(ctx.ok(R, f, a, "the whole project is selected only when job_ids is None"))
            else:
                out.append(ctx.viol(R, f, a, f"the whole project is selected under {sorted(facts)}: an empty job_ids selection is treated like no selection"))
        elif "job_ids" in t:
            out.append(ctx.ok(R, f, a, "the selection is opened job by job from job_ids"))
    return out


def os_abs(e):
    return isinstance(e, ast.Call) and (dotted(e.func) or "") in ("os.path.abspath", "os.path.realpath")


@rule("C17-c")
def c17_c(ctx: Ctx):
    """Existing view is analysed exhaustively; changed and dangling links are re-pointed; obsolete removed first."""
    R = "C17-c"
    out = []
    fl = ctx.fn(LV + ":_find_all_links")
    walks = [n for n in body_nodes(fl) if isinstance(n, ast.For) and isinstance(n.iter, ast.Call) and common.ext_name(ctx, fl, n.iter) == "os.walk"]
    if not walks:
        out.append(ctx.inc(R, fl, fl.node, "no os.walk in _find_all_links"))
    for w in walks:
        dn = w.target.elts[1].id if isinstance(w.target, ast.Tuple) and len(w.target.elts) == 3 and isinstance(w.target.elts[1], ast.Name) else None
        # a leaf is a link to a job directory: os.walk lists it among the directory names while its target exists and among the file names once it dangles -
        # both lists are looked at
        if isinstance(w.target, ast.Tuple) and len(w.target.elts) == 3:
            kw_ = fl.qual + "|both-name-lists"
            unread = []
            for e, what in ((w.target.elts[1], "directory names"), (w.target.elts[2], "file names")):
                nm = e.id if isinstance(e, ast.Name) else None
                if nm is None or not any(isinstance(x, ast.Name) and x.id == nm and isinstance(x.ctx, ast.Load) for st in w.body for x in ast.walk(st)):
                    unread.append(what)
            if unread:
                out.append(ctx.viol(R, fl, w, f"the walk over the existing view never looks at the {' / '.join(unread)} os.walk reports: a 'job' link whose target is gone (job removed or re-keyed) "
                                    "is listed among the file names, so dangling links are not found and neither they nor their directories are ever cleaned up", construct=kw_))
            else:
                out.append(ctx.ok(R, fl, w, "links are searched among the directory names and the file names of every directory", construct=kw_))
        prune = []
        for n in ast.walk(w):
            if isinstance(n, ast.Delete) and any(canon(t).startswith(f"{dn}[") for t in n.targets):
                prune.append(n)
            if isinstance(n, ast.Assign) and any(canon(t).startswith(f"{dn}[") for t in n.targets):
                prune.append(n)
            if isinstance(n, ast.Call) and isinstance(n.func, ast.Attribute) and canon(n.func.value) == dn and n.func.attr in ("clear", "remove", "pop"):
                prune.append(n)
        if prune:
            out.append(ctx.viol(R, fl, prune[0], "the walk over the existing view prunes sub-directories: links below a directory that already holds a 'job' link (heterogeneous schemas: "
                                "a/1/job and a/1/b/2/job) are not found, so a second run tries to create them again (FileExistsError) or never removes them"))
        else:
            out.append(ctx.ok(R, fl, w, "the existing view is walked exhaustively"))
    # the analysis of the existing view: _analyze_view, or (when it was written out at its only user) _update_view itself
    av = ctx.prog.funcs.get(LV + ":_analyze_view") or ctx.fn(LV + ":_update_view")
    # roles: _analyze_view returns (obsolete, to_update, new)
    rt = [r for r in body_nodes(av) if isinstance(r, ast.Return) and isinstance(r.value, ast.Tuple) and len(r.value.elts) == 3 and all(isinstance(e, ast.Name) for e in r.value.elts)]
    TU = rt[0].value.elts[1].id if rt else "to_update"
    LK = av.params[1] if len(av.params) > 1 else "links"
    tu = [n for n in body_nodes(av) if isinstance(n, ast.Assign) and any(isinstance(t, ast.Name) and t.id == TU for t in n.targets)]
    if not tu or not isinstance(tu[0].value, ast.ListComp):
        out.append(ctx.inc(R, av, av.node, "the list of links to update is not a list comprehension"))
    else:
        conds = [c for g in tu[0].value.generators for c in g.ifs]
        t = " and ".join(canon(c) for c in conds)
        if any(x in t for x in ("os.path.exists(", "os.path.isdir(", "os.path.lexists(", "os.path.isfile(", "samefile(")):
            out.append(ctx.viol(R, av, tu[0], f"a kept link is re-pointed only if `{t[:90]}`: a link whose old target no longer exists (job re-keyed or removed and re-created) "
                                "stays dangling, unlike a view built from scratch"))
        elif len(conds) == 1 and (common.pmatch(f"os.path.realpath(os.path.join(prefix, P)) != {LK}[P]", conds[0]) is not None
                                  or common.pmatch(f"{LK}[P] != os.path.realpath(os.path.join(prefix, P))", conds[0]) is not None):
            out.append(ctx.ok(R, av, tu[0], "a kept link is re-pointed whenever its resolved target differs from the job directory"))
        elif any(isinstance(x, ast.Call) and common.ext_name(ctx, av, x) in ("os.path.basename", "os.path.split") for cnd in conds for x in ast.walk(cnd)) \
                or (any(isinstance(x, ast.Call) and common.ext_name(ctx, av, x) == "os.readlink" for cnd in conds for x in ast.walk(cnd))
                    and not any(isinstance(x, ast.Call) and common.ext_name(ctx, av, x) in ("os.path.realpath", "os.path.abspath", "os.path.join") and "readlink" in canon(x) for cnd in conds for x in ast.walk(cnd))):
            out.append(ctx.viol(R, av, tu[0], f"a kept link is judged by `{t[:80]}`, i.e. by a part of the link text (last component / unresolved relative target) instead of the resolved "
                                "target: links that carry the right job id but point to another location (project moved, view re-used for a second project) are kept although they dangle"))
        else:
            out.append(ctx.inc(R, av, tu[0], "to_update condition not recognised: " + t[:80]))
    acfg = ctx.cfg(av)
    tu_ids = {n.id for n in acfg.stmt_nodes() if isinstance(n.ast, ast.Assign) and any(isinstance(t, ast.Name) and t.id == TU for t in n.ast.targets)
              and isinstance(n.ast.value, (ast.ListComp, ast.SetComp, ast.GeneratorExp, ast.Call))}
    for n in acfg.stmt_nodes():
        if isinstance(n.ast, ast.Return):
            w = acfg.must_pass_before(n.id, tu_ids, kinds="n")
            if w is None and tu_ids:
                out.append(ctx.ok(R, av, n.ast, "_analyze_view returns only after comparing the target of every kept link with its job directory"))
            else:
                out.append(ctx.viol(R, av, n.ast, "_analyze_view can return without comparing link targets (a short-cut on the set of link paths): when all paths survive but the jobs behind them "
                                    "changed (re-keyed constant parameter, other selection with the same keys) dangling / wrong links are kept", witness=acfg.describe_path(w) if w else None))
    uv = ctx.fn(LV + ":_update_view")
    cfg = ctx.cfg(uv)
    unl = [n.id for n in cfg.stmt_nodes() if n.kind == "stmt" and any(isinstance(c, ast.Call) and common.ext_name(ctx, uv, c) in ("os.unlink", "os.rmdir", "os.remove") for c in walk_no_nested(n.ast))]
    mk = [n for n in cfg.stmt_nodes() if n.kind == "stmt" and any(isinstance(c, ast.Call) and (LV + ":_make_link") in common.targets_of(ctx, uv, c) for c in walk_no_nested(n.ast))]
    if unl and mk:
        for m in mk:
            after = cfg.reachable([m.id], kinds="n")
            late = [u for u in unl if u in after and u not in cfg.reachable([m.id], kinds="n", blocked=set()) - after]
            # a removal reachable after a link creation (outside the same loop) would delete fresh links
            loop_nodes = set()
            if any(u in after for u in unl):
                # allowed only if it is the same loop iteration structure (not the case in the reference code)
                out.append(ctx.viol(R, uv, m.ast, "links can be removed after new links were created: fresh links may be deleted"))
            else:
                out.append(ctx.ok(R, uv, m.ast, "obsolete links are removed before any link is (re)created"))
    else:
        out.append(ctx.inc(R, uv, uv.node, "_update_view: unlink / make_link not found"))
    avd = ctx.desugared(av)
    srt = [n for n in body_nodes(avd) if isinstance(n, ast.For) and "_find_dead_branches" in canon(common.inline_at(ctx, avd, n.iter, n))]
    it0 = canon(common.inline_at(ctx, avd, srt[0].iter, srt[0])).replace(" ", "") if srt else ""
    if srt and (("reversed(sorted(" in it0 and "key=len" in it0) or ("sorted(" in it0 and "key=len" in it0 and "reverse=True" in it0)):
        out.append(ctx.ok(R, av, srt[0], "dead branches are removed deepest first"))
    elif srt:
        out.append(ctx.inc(R, av, srt[0], "order of dead-branch removal not recognised"))
    # every non-empty dead branch is removed - also a dead directory directly below the view root (a branch of length 1)
    for lp in srt:
        bv = lp.target.id if isinstance(lp.target, ast.Name) else None
        adds = [c for st in lp.body for c in ast.walk(st) if isinstance(c, ast.Call) and isinstance(c.func, ast.Attribute) and c.func.attr in ("append", "add")]
        kk = LV + ":_analyze_view|all-dead-branches"
        for a in adds[:1]:
            facts = common.facts_at(ctx, avd, a, "n")
            lo, hi = common.len_range(facts, bv) if bv else (0, None)
            if lo >= 2:
                out.append(ctx.viol(R, av, a, f"only dead branches with at least {lo} components are removed: a dead directory directly below the view root (e.g. view/a after the key `a` "
                                    "disappeared from all selected jobs) is left behind as an empty directory", construct=kk))
            elif lo == 1 or (bv, True) in facts:
                out.append(ctx.ok(R, av, a, "every non-empty dead branch is scheduled for removal", construct=kk))
            else:
                out.append(ctx.inc(R, av, a, f"filter on dead branches not recognised: {sorted(facts)}", construct=kk))
    # the link's target is expressed relative to the directory that contains the link: os.path.relpath(<job dir>, dirname(<link>))
    for c in [x for x in body_nodes(uv) if isinstance(x, ast.Call) and (LV + ":_make_link") in common.targets_of(ctx, uv, x) and len(x.args) >= 2]:
        srcv = common.inline_at(ctx, uv, c.args[0], c)
        dstt = canon(c.args[1])
        dsti = canon(common.inline_at(ctx, uv, c.args[1], c))
        kk = LV + ":_update_view|link-target-relative-to-link-dir"
        b = common.pmatch("os.path.relpath(T, S)", srcv)
        forms = {f"os.path.split({d})[0]".replace(" ", "") for d in (dstt, dsti)} | {f"os.path.dirname({d})".replace(" ", "") for d in (dstt, dsti)}
        if b is not None and canon(b["S"]).replace(" ", "") in forms:
            out.append(ctx.ok(R, uv, c, "the link target is os.path.relpath(<job directory>, <directory of the link>)", construct=kk))
        elif b is not None or "relpath" in canon(srcv) or "pardir" in canon(srcv) or "'..'" in canon(srcv):
            out.append(ctx.viol(R, uv, c, f"the link target is computed as {canon(srcv)[:70]}, not relative to the directory that holds the link: for path specifications that are not in normal "
                                "form ('./n/{n}', 'a//{b}', an empty value) the number of '..' steps is wrong and the links dangle", construct=kk))
        elif os_abs(srcv):
            out.append(ctx.ok(R, uv, c, "the link target is an absolute path", construct=kk))
        else:
            out.append(ctx.inc(R, uv, c, f"link target shape not recognised: {canon(srcv)[:60]}", construct=kk))
    ml = ctx.fn(LV + ":_make_link")
    sl = [c for c in body_nodes(ml) if isinstance(c, ast.Call) and common.ext_name(ctx, ml, c) == "os.symlink"]
    if sl and [canon(a) for a in sl[0].args[:2]] == ["src", "dst"]:
        out.append(ctx.ok(R, ml, sl[0], "os.symlink(src, dst): the link at dst points to the job directory"))
    else:
        out.append(ctx.viol(R, ml, ml.node, "_make_link does not create os.symlink(src, dst)"))
    return out


@rule("C17-d")
def c17_d(ctx: Ctx):
    """One link per job: shared path-function uniqueness and leaf/node checks (C16-a, C16-b)."""
    out = []
    for r in c16_a(ctx) + c16_b(ctx):
        if "_export_jobs" in r.function:
            continue
        r.rule = "C17-d"
        out.append(r)
    return out


@rule("C17-e")
def c17_e(ctx: Ctx):
    """None-sentinels of the view code: job_ids=None means all jobs; branch=None marks the root call of the dead-branch search (an empty branch list is a real value)."""
    from .lints import sentinel_discipline
    from .lints import single_consumption
    extra = single_consumption(ctx, "C17-e", [
        ("signac.project:Project.create_linked_view", "job_ids", "a selection given as a generator is exhausted by the first pass; the view is then built for an empty selection (and the fallback links an arbitrary job)"),
        ("signac.linked_view:create_linked_view", "job_ids", "a selection given as a generator is exhausted by the first pass"),
    ])
    return extra + sentinel_discipline(ctx, "C17-e", [("signac.linked_view:create_linked_view", "job_ids", "an empty selection is a selection: treated as 'not given' the view is built for the whole project"),
     ("signac.linked_view:_find_dead_branches", "branch", "children of the root are visited with an empty branch list; treated as 'root call' their own node is not appended and every obsolete path loses its first component")])


@rule("C17-f")
def c17_f(ctx: Ctx):
    """Per-job / per-entry loops are independent: nothing read in one iteration was computed in another."""
    from .lints import per_item_loops, late_binding_in_loops, one_shot_locals
    return one_shot_locals(ctx, "C17-f", ("signac.linked_view", "signac.import_export")) + late_binding_in_loops(ctx, "C17-f", ("signac.linked_view",)) + per_item_loops(ctx, "C17-f", [('signac.linked_view:create_linked_view', 'a job is linked under the path computed for the previous one'), ('signac.linked_view:_update_view', 'a link is created from the data of the previous one'), ] + ([('signac.linked_view:_analyze_view', 'a link is classified by the data of the previous one')] if 'signac.linked_view:_analyze_view' in ctx.prog.funcs else []))


@rule("C17-g")
def c17_g(ctx: Ctx):
    """Whole-module cross-checks: no exchanged positional arguments in resolved internal calls; diagnostics (logging / warnings) do no work."""
    from .lints import swapped_arguments, pure_logging
    return swapped_arguments(ctx, "C17-g", ['signac.linked_view', 'signac.import_export']) + pure_logging(ctx, "C17-g", ['signac.linked_view'])


@rule("C17-h")
def c17_h(ctx: Ctx):
    """The tree of existing view paths distinguishes directories by their exact names; paths inside the view are made relative with relpath, not by prefix length."""
    from .lints import keyed_by_parameter, no_prefix_length_slicing
    why = ("directories whose names differ only in case share one node: after a value is re-spelled "
           "('Alpha' -> 'alpha') the obsolete branch is coloured alive and its dangling link is never removed")
    if (LV + ":_Node.get_child") in ctx.prog.funcs:
        out = keyed_by_parameter(ctx, "C17-h", [(LV + ":_Node.get_child", "self.children", "name", why)])
    else:
        # the accessor was written out at its users: every look-up / insertion in a `.children` mapping is keyed by the path component itself (the loop variable
        # that runs over the components), not by a reduced form of it
        out = []
        k = LV + ":_Node.get_child|keyed-by:name"
        uses, bad = [], None
        for fi in ctx.prog.functions_of_module(LV):
            loopvars = {t.id for n in body_nodes(fi) if isinstance(n, ast.For) for t in ast.walk(n.target) if isinstance(t, ast.Name)}
            for n in body_nodes(fi):
                key = None
                if isinstance(n, ast.Call) and isinstance(n.func, ast.Attribute) and n.func.attr in ("setdefault", "get", "pop") and n.args and canon(n.func.value).endswith(".children"):
                    key = n.args[0]
                elif isinstance(n, ast.Subscript) and canon(n.value).endswith(".children"):
                    key = n.slice
                elif isinstance(n, ast.Compare) and len(n.ops) == 1 and isinstance(n.ops[0], (ast.In, ast.NotIn)) and canon(n.comparators[0]).endswith(".children"):
                    key = n.left
                if key is None:
                    continue
                kv = common.inline_at(ctx, fi, key, n)
                uses.append((fi, n))
                if not (isinstance(kv, ast.Name) and (kv.id in loopvars or kv.id in fi.params)):
                    bad = bad or (fi, n, kv)
        if not uses:
            out.append(ctx.inc("C17-h", None, None, "no _Node.get_child and no keyed use of a .children mapping found", construct=k))
        elif bad:
            out.append(ctx.viol("C17-h", bad[0], bad[1], f"`{canon(bad[1])[:50]}` keys the children of a view-tree node by `{canon(bad[2])[:40]}`, a reduced form of the path component: {why}", construct=k))
        else:
            out.append(ctx.ok("C17-h", uses[0][0], uses[0][1], f"{len(uses)} use(s) of a .children mapping, all keyed by the path component itself", construct=k))
    out += no_prefix_length_slicing(ctx, "C17-h", ["signac.linked_view", "signac.import_export"])
    # the existing links (the tree) and the wanted links (the colouring) are cut into components in the same way: './job' against 'job' is how a stale
    # root-level link is recognised as obsolete and replaced
    R = "C17-h"
    bt = ctx.prog.funcs.get(LV + ":_build_tree")
    av = ctx.prog.funcs.get(LV + ":_analyze_view") or ctx.prog.funcs.get(LV + ":_update_view")
    k = LV + "|same-tokenisation"
    if bt is None or av is None:
        out.append(ctx.inc(R, None, None, "_build_tree / _analyze_view not found", construct=k))
        return out

    def shape(e, var):
        t = canon(e).replace(" ", "")
        return t.replace(var, "P") if var else t
    tree_tok = []
    for lp in [n for n in body_nodes(bt) if isinstance(n, ast.For)]:
        outer = [o for o in body_nodes(bt) if isinstance(o, ast.For) and o is not lp and any(x is lp for x in ast.walk(o))]
        if outer and isinstance(outer[0].target, ast.Name) and outer[0].target.id in {x.id for x in ast.walk(lp.iter) if isinstance(x, ast.Name)}:
            tree_tok.append((lp, shape(common.inline_at(ctx, bt, lp.iter, lp), outer[0].target.id)))
    col_tok = []
    for c in body_nodes(av):
        if isinstance(c, ast.Call) and any(t.endswith(":_color_path") for t in common.targets_of(ctx, av, c)) and len(c.args) >= 2:
            a = common.inline_at(ctx, av, c.args[1], c)
            names = [x.id for x in ast.walk(a) if isinstance(x, ast.Name) and x.id not in ("os",)]
            col_tok.append((c, shape(a, names[0] if names else None)))
    if not tree_tok or not col_tok:
        out.append(ctx.inc(R, bt, bt.node, "tokenisation of view paths not recognised", construct=k))
    else:
        a, b = tree_tok[0][1], col_tok[0][1]
        std = ("P.split(os.sep)", "P.split(os.path.sep)")
        if a == b or (a in std and b in std):
            out.append(ctx.ok(R, bt, tree_tok[0][0], f"existing and wanted view paths are split into components the same way ({a})", construct=k))
        else:
            out.append(ctx.viol(R, bt, tree_tok[0][0], f"the tree of existing links splits paths with {a} while the wanted links are coloured with {b}: the two disagree on '.' components "
                                "(PurePath('./job').parts drops the '.'), so the stale root-level link './job' of a one-job view is no longer recognised as obsolete, is not removed, and "
                                "re-creating 'job' fails with FileExistsError", construct=k))
    return out


@rule("C17-i")
def c17_i(ctx: Ctx):
    """View paths spell state point keys as the schema reports them: the index prefix is removed at the front of the key only (from C18-b)."""
    from .c18 import c18_b
    res = [r for r in c18_b(ctx) if "_strip_prefix" in (r.function or "")]
    for r in res:
        r.rule = "C17-i"
    return res


@rule("C17-j")
def c17_j(ctx: Ctx):
    """signac view: an empty selection still updates the view (it is not a reason to return early)."""
    from . import cli
    return cli.selection_discipline(ctx, "C17-j", {"main_view"})


RULES = [c17_a, c17_b, c17_c, c17_d, c17_e, c17_f, c17_g, c17_h, c17_i, c17_j]
