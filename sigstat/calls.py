"""sigstat.calls - receiver typing, call resolution, call graph, effect summaries."""
from __future__ import annotations

import ast
from dataclasses import dataclass, field
from typing import Dict, List, Optional, Tuple, Set, Iterable

from .core import (
    Program, FuncInfo, ClassInfo, Module, Folder, UNKNOWN, dotted, call_name, kwarg, arg_or_kw,
    walk_no_nested, body_nodes, resolve_import_name, single_assign_env, stmt_key, has_star_kwargs,
)

JOB = "signac.job:Job"
PROJECT = "signac.project:Project"
CURSOR = "signac.project:JobsCursor"
SPDICT = "signac.job:_StatePointDict"
JSONDOC = "synced_collections.backends.collection_json:BufferedJSONAttrDict"
FPROXY = "signac.sync:_FileModifyProxy"
DPROXY = "signac.sync:_DocProxy"
CONFIGOBJ = "ext:ConfigObj"
LIST_JOB = "list:" + JOB

# ---------------------------------------------------------------------------
# Frozen receiver table: (function qual, variable) -> type.  Each line was
# confirmed by reading the function; a variable that is not listed and cannot
# be typed by construction stays untyped (its calls are "unresolved").
# ---------------------------------------------------------------------------
VAR_TYPES: Dict[Tuple[str, str], str] = {
    ("signac.sync:sync_jobs", "src"): JOB,  # documented: "src : Job"
    ("signac.sync:sync_jobs", "dst"): JOB,
    ("signac.sync:sync_jobs", "proxy"): FPROXY,  # either dry_run (checked with type()) or constructed
    ("signac.sync:_sync_job_workspaces", "src"): JOB,
    ("signac.sync:_sync_job_workspaces", "dst"): JOB,
    ("signac.sync:sync_projects", "source"): PROJECT,
    ("signac.sync:sync_projects", "destination"): PROJECT,
    ("signac.sync:sync_projects.<locals>._clone_or_sync", "src_job"): JOB,  # element of list(source)
    ("signac.sync:sync_projects", "jobs_to_sync"): LIST_JOB,
    ("signac.sync:FileSync.update", "src"): JOB,
    ("signac.sync:FileSync.update", "dst"): JOB,
    ("signac.job:_StatePointDict._save", "job"): JOB,  # element of self._jobs
    ("signac.job:Job.move", "project"): PROJECT,
    ("signac.job:Job.sync", "other"): JOB,
    ("signac.job:Job.__init__", "project"): PROJECT,
    ("signac.project:Project.clone", "job"): JOB,
    ("signac.project:Project.sync", "other"): PROJECT,
    ("signac.project:Project.__contains__", "job"): JOB,
    ("signac.project:JobsCursor.__contains__", "job"): JOB,
    ("signac.project:JobsCursor.__init__", "project"): PROJECT,
    ("signac.project:_JobsCursorIterator.__init__", "project"): PROJECT,
    ("signac.project:Project.temporary_project", "tmp_project"): PROJECT,
    ("signac.project:Project.import_from", "tmp_project"): PROJECT,
    ("signac.import_export:_copy_to_job_workspace", "job"): JOB,
    ("signac.import_export:_crawl_directory_data_space", "project"): PROJECT,
    ("signac.import_export:_analyze_directory_for_import", "project"): PROJECT,
    ("signac.import_export:_analyze_zipfile_for_import", "project"): PROJECT,
    ("signac.import_export:_analyze_tarfile_for_import", "project"): PROJECT,
    ("signac.import_export:_make_schema_based_path_function", "jobs"): LIST_JOB,
    ("signac.import_export:_make_schema_based_path_function.<locals>.path", "job"): JOB,
    ("signac.import_export:_make_path_function", "jobs"): LIST_JOB,
    ("signac.import_export:_make_path_function.<locals>.path_function", "job"): JOB,
    ("signac.import_export:_check_path_function_unique", "jobs"): LIST_JOB,
    ("signac.import_export:_export_jobs", "jobs"): LIST_JOB,
    ("signac.import_export:export_jobs", "jobs"): LIST_JOB,
    ("signac.import_export:export_to_directory", "jobs"): LIST_JOB,
    ("signac.import_export:export_to_zipfile", "jobs"): LIST_JOB,
    ("signac.import_export:export_to_tarfile", "jobs"): LIST_JOB,
    ("signac.import_export:import_into_project", "project"): PROJECT,
    ("signac.import_export:_prepare_import_into_project", "project"): PROJECT,
    ("signac.linked_view:create_linked_view", "project"): PROJECT,
    ("signac.diff:diff_jobs", "jobs"): LIST_JOB,
    ("signac.migration:apply_migrations", "config"): CONFIGOBJ,
    ("signac.migration.v1_to_v2:_migrate_v1_to_v2", "cfg"): CONFIGOBJ,
    ("signac.project:Project.init_project", "config"): CONFIGOBJ,
}

# attribute of a typed receiver -> type (fields, not properties)
FIELD_TYPES: Dict[Tuple[str, str], str] = {
    (JOB, "_project"): PROJECT,
    (JOB, "project"): PROJECT,
    (JOB, "_statepoint"): SPDICT,
    (JOB, "statepoint"): SPDICT,
    (JOB, "sp"): SPDICT,
    (JOB, "_document"): JSONDOC,
    (JOB, "document"): JSONDOC,
    (JOB, "doc"): JSONDOC,
    (PROJECT, "_document"): JSONDOC,
    (PROJECT, "document"): JSONDOC,
    (PROJECT, "doc"): JSONDOC,
    (CURSOR, "_project"): PROJECT,
    ("signac.project:_JobsCursorIterator", "_project"): PROJECT,
    (SPDICT, "_jobs"): LIST_JOB,
}

# (receiver type, method) -> return type
RETURN_TYPES: Dict[Tuple[str, str], str] = {
    (PROJECT, "open_job"): JOB,
    (PROJECT, "clone"): JOB,
    (PROJECT, "find_jobs"): CURSOR,
    (PROJECT, "get_project"): PROJECT,
    (PROJECT, "init_project"): PROJECT,
    (PROJECT, "get_job"): JOB,
    (PROJECT, "_find_job_ids"): "list:str",
    (JOB, "init"): JOB,
}

# module-level function -> return type (documented return values)
FUNC_RETURN_TYPES: Dict[str, str] = {
    "signac.project:get_project": PROJECT,
    "signac.project:init_project": PROJECT,
    "signac.project:get_job": JOB,
    "signac.__main__:_open_job_by_id": JOB,
    "signac._config:_read_config_file": CONFIGOBJ,
    "signac._config:_load_config": CONFIGOBJ,
    "signac.migration.v0_to_v1:_load_config_v1": CONFIGOBJ,
    "signac.migration.v1_to_v2:_load_config_v2": CONFIGOBJ,
}

ITER_ELEM = {PROJECT: JOB, CURSOR: JOB, LIST_JOB: JOB}


def c3_mro(prog: Program, cq: str) -> List[str]:
    def merge(seqs):
        res = []
        seqs = [list(s) for s in seqs if s]
        while seqs:
            for s in seqs:
                h = s[0]
                if not any(h in t[1:] for t in seqs):
                    break
            else:
                # inconsistent: fall back to first head
                h = seqs[0][0]
            res.append(h)
            seqs = [[x for x in s if x != h] for s in seqs]
            seqs = [s for s in seqs if s]
        return res

    def lin(q, depth=0):
        ci = prog.classes.get(q)
        if ci is None or depth > 20:
            return [q]
        bases = [b for b in ci.bases if b in prog.classes]
        return [q] + merge([lin(b, depth + 1) for b in bases] + [bases])

    return lin(cq)


class Calls:
    def __init__(self, prog: Program):
        self.prog = prog
        self.folder = Folder(prog)
        self._mro_cache: Dict[str, List[str]] = {}
        self._subclasses: Dict[str, Set[str]] = {}
        for q in prog.classes:
            for b in self.mro(q)[1:]:
                self._subclasses.setdefault(b, set()).add(q)
        self._env_cache: Dict[str, Dict[str, str]] = {}
        self._callees: Dict[str, List[Tuple[ast.AST, List[FuncInfo], Optional[str]]]] = {}
        self.unresolved: List[Tuple[str, int, str]] = []
        self.total_calls = 0
        self.resolved_calls = 0

    # -- classes -----------------------------------------------------------
    def mro(self, cq: str) -> List[str]:
        if cq not in self._mro_cache:
            self._mro_cache[cq] = c3_mro(self.prog, cq)
        return self._mro_cache[cq]

    def find_method(self, cq: str, name: str, after: Optional[str] = None) -> Optional[FuncInfo]:
        m = self.mro(cq)
        if after is not None and after in m:
            m = m[m.index(after) + 1:]
        for q in m:
            ci = self.prog.classes.get(q)
            if ci and name in ci.methods:
                return ci.methods[name]
        return None

    def find_property(self, cq: str, name: str):
        for q in self.mro(cq):
            ci = self.prog.classes.get(q)
            if ci and name in ci.properties:
                return ci.properties[name]
        return None

    def is_subclass(self, cq: str, base: str) -> bool:
        return base in self.mro(cq)

    def enclosing_class(self, fi: FuncInfo) -> Optional[ClassInfo]:
        p = fi
        while p is not None:
            if p.cls is not None:
                return p.cls
            p = p.parent
        return None

    # -- typing ------------------------------------------------------------
    def var_env(self, fi: FuncInfo) -> Dict[str, str]:
        if fi.qual in self._env_cache:
            return self._env_cache[fi.qual]
        env: Dict[str, str] = {}
        self._env_cache[fi.qual] = env
        # closures see the enclosing function's variables
        if fi.parent is not None:
            env.update(self.var_env(fi.parent))
        ec = self.enclosing_class(fi)
        if ec is not None and fi.params:
            first = fi.params[0]
            if first in ("self",) and "staticmethod" not in fi.decorators:
                env["self"] = ec.qual
            elif first == "cls" and "classmethod" in fi.decorators:
                env["cls"] = "type:" + ec.qual
        for (fq, var), t in VAR_TYPES.items():
            if fq == fi.qual:
                env[var] = t
        # by construction: v = Class(...), v = typed.method(...), for v in typed, with typed as v
        for _ in range(3):
            changed = False
            for n in body_nodes(fi):
                tgt = None
                val_t = None
                if isinstance(n, ast.Assign) and len(n.targets) == 1 and isinstance(n.targets[0], ast.Name):
                    tgt = n.targets[0].id
                    val_t = self.type_of(n.value, fi, env)
                elif isinstance(n, (ast.For, ast.AsyncFor)) and isinstance(n.target, ast.Name):
                    it = self.type_of(n.iter, fi, env)
                    tgt = n.target.id
                    val_t = ITER_ELEM.get(it) if it else None
                elif isinstance(n, (ast.With, ast.AsyncWith)):
                    for item in n.items:
                        if isinstance(item.optional_vars, ast.Name):
                            t = self.type_of(item.context_expr, fi, env)
                            if t and item.optional_vars.id not in env:
                                env[item.optional_vars.id] = t
                                changed = True
                if tgt and val_t and tgt not in env:
                    env[tgt] = val_t
                    changed = True
            if not changed:
                break
        return env

    def type_of(self, e: ast.AST, fi: FuncInfo, env: Optional[Dict[str, str]] = None) -> Optional[str]:
        env = env if env is not None else self.var_env(fi)
        if isinstance(e, ast.Name):
            if e.id in env:
                return env[e.id]
            cq = self.prog.resolve_class_name(fi.module, e.id)
            if cq:
                return "type:" + cq
            return None
        if isinstance(e, ast.Attribute):
            bt = self.type_of(e.value, fi, env)
            if bt:
                if (bt, e.attr) in FIELD_TYPES:
                    return FIELD_TYPES[(bt, e.attr)]
                if bt.startswith("type:"):
                    return None
            return None
        if isinstance(e, ast.Call):
            f = e.func
            if isinstance(f, ast.Subscript) and isinstance(f.value, ast.Name) and f.value.id == "_CONFIG_LOADERS":
                return CONFIGOBJ  # registry of the per-version config loaders (signac.migration)
            if isinstance(f, ast.Name):
                t = self.type_of(f, fi, env)
                if t and t.startswith("type:"):
                    return t[5:]
                if f.id == "type" and len(e.args) == 1:
                    t2 = self.type_of(e.args[0], fi, env)
                    return "type:" + t2 if t2 and not t2.startswith("type:") else None
                if f.id == "list" and len(e.args) == 1:
                    t2 = self.type_of(e.args[0], fi, env)
                    if t2 in ITER_ELEM:
                        return "list:" + ITER_ELEM[t2]
                if f.id == "iter" and len(e.args) == 1:
                    return self.type_of(e.args[0], fi, env)
                tf = self.resolve_name_to_func(fi.module, f.id, fi)
                if tf is not None and tf.qual in FUNC_RETURN_TYPES:
                    return FUNC_RETURN_TYPES[tf.qual]
                return None
            if isinstance(f, ast.Attribute):
                bt = self.type_of(f.value, fi, env)
                if bt:
                    base = bt[5:] if bt.startswith("type:") else bt
                    for q in self.mro(base) if base in self.prog.classes else [base]:
                        if (q, f.attr) in RETURN_TYPES:
                            return RETURN_TYPES[(q, f.attr)]
                    if bt.startswith("type:") and f.attr in ("__new__",):
                        return base
                # module.Class(...)
                d = dotted(f)
                if d:
                    cq = self.prog.resolve_class_name(fi.module, d)
                    if cq:
                        return cq
            return None
        if isinstance(e, ast.Subscript):
            bt = self.type_of(e.value, fi, env)
            if bt and bt.startswith("list:"):
                return bt[5:]
            return None
        return None

    # -- call resolution ---------------------------------------------------
    def resolve_name_to_func(self, m: Module, name: str, fi: Optional[FuncInfo]) -> Optional[FuncInfo]:
        # local nested function visible from fi (own nested, or siblings through parent)
        p = fi
        while p is not None:
            if name in p.nested:
                return p.nested[name]
            p = p.parent
        q = f"{m.name}:{name}"
        if q in self.prog.funcs:
            return self.prog.funcs[q]
        if name in m.imports:
            mod, attr = m.imports[name]
            if attr is not None:
                return self._func_in(mod, attr)
        return None

    def _func_in(self, modname, fname, depth=0) -> Optional[FuncInfo]:
        q = f"{modname}:{fname}"
        if q in self.prog.funcs:
            return self.prog.funcs[q]
        m = self.prog.modules.get(modname)
        if m and depth < 4 and fname in m.imports:
            mod2, attr2 = m.imports[fname]
            if attr2 is not None:
                return self._func_in(mod2, attr2, depth + 1)
        return None

    def resolve_call(self, fi: FuncInfo, call: ast.Call) -> Tuple[List[FuncInfo], Optional[str]]:
        """-> (internal targets, external dotted name).  Both empty => unresolved."""
        f = call.func
        m = fi.module
        env = self.var_env(fi)
        if isinstance(f, ast.Name):
            # local variable bound to a function value (single assignment / parameter default)?
            t = env.get(f.id)
            if t and t.startswith("type:"):
                init = self.find_method(t[5:], "__init__")
                return ([init] if init else []), (None if init else t[5:] + ".__init__")
            tgt = self.resolve_name_to_func(m, f.id, fi)
            if tgt:
                return [tgt], None
            cq = self.prog.resolve_class_name(m, f.id)
            if cq:
                init = self.find_method(cq, "__init__")
                return ([init] if init else []), (None if init else cq + ".__init__")
            # function-valued local: name = other_function / attribute
            senv = single_assign_env(fi)
            if f.id in senv and isinstance(senv[f.id], (ast.Name, ast.Attribute)):
                fake = ast.Call(func=senv[f.id], args=call.args, keywords=call.keywords)
                ast.copy_location(fake, call)
                if not (isinstance(senv[f.id], ast.Name) and senv[f.id].id == f.id):
                    return self.resolve_call(fi, fake)
            if f.id in m.imports:
                return [], resolve_import_name(m, f.id)
            if f.id in fi.params or any(f.id in p.params for p in self._parents(fi)):
                return [], None  # callable parameter: unknown target
            import builtins

            if hasattr(builtins, f.id):
                return [], "builtins." + f.id
            return [], None
        if isinstance(f, ast.Attribute):
            # super().m()
            if isinstance(f.value, ast.Call) and isinstance(f.value.func, ast.Name) and f.value.func.id == "super":
                ec = self.enclosing_class(fi)
                if ec:
                    t = self.find_method(ec.qual, f.attr, after=ec.qual)
                    if t:
                        return self._with_overrides_none(t), None
                    return [], f"super({ec.qual}).{f.attr}"
                return [], None
            bt = self.type_of(f.value, fi, env)
            if bt:
                if bt.startswith("type:"):
                    cq = bt[5:]
                    t = self.find_method(cq, f.attr)
                    if t:
                        return [t], None
                    return [], f"{cq}.{f.attr}"
                if bt.startswith("list:") or bt.startswith("ext:"):
                    return [], f"{bt}.{f.attr}"
                if bt in self.prog.classes:
                    t = self.find_method(bt, f.attr)
                    out = [t] if t else []
                    # class hierarchy analysis: overrides in subclasses may be the dynamic target
                    for sub in sorted(self._subclasses.get(bt, ())):
                        sc = self.prog.classes[sub]
                        if f.attr in sc.methods and sc.methods[f.attr] not in out:
                            out.append(sc.methods[f.attr])
                    if out:
                        return out, None
                    # callable attribute set in __init__ (e.g. self.key_strategy) -> unknown
                    return [], f"{bt}.{f.attr}"
                return [], f"{bt}.{f.attr}"
            d = dotted(f)
            if d:
                head = d.split(".")[0]
                if head in m.imports and head not in env:
                    full = resolve_import_name(m, d)
                    # signac internal module function?
                    modname, _, fname = full.rpartition(".")
                    t = self._func_in(modname, fname)
                    if t:
                        return [t], None
                    cq = self.prog.resolve_class_name(m, d)
                    if cq:
                        init = self.find_method(cq, "__init__")
                        return ([init] if init else []), (None if init else cq + ".__init__")
                    return [], full
            return [], None
        return [], None

    def _with_overrides_none(self, t):
        return [t]

    def _parents(self, fi):
        p = fi.parent
        while p is not None:
            yield p
            p = p.parent

    def property_accesses(self, fi: FuncInfo) -> List[Tuple[ast.Attribute, FuncInfo, str]]:
        """(attribute node, accessor function, 'get'|'set') for attribute uses on typed receivers that hit a property."""
        out = []
        env = self.var_env(fi)
        for n in body_nodes(fi):
            if isinstance(n, ast.Attribute):
                bt = self.type_of(n.value, fi, env)
                if bt and not bt.startswith(("type:", "list:", "ext:")) and bt in self.prog.classes:
                    pr = self.find_property(bt, n.attr)
                    if pr:
                        role = "set" if isinstance(n.ctx, ast.Store) else ("del" if isinstance(n.ctx, ast.Del) else "get")
                        if role in pr:
                            out.append((n, pr[role], role))
        return out

    def callees(self, fi: FuncInfo):
        """List of (call or attribute node, [internal targets], external name) for every call site in fi
        (nested function bodies excluded; they are functions of their own)."""
        if fi.qual in self._callees:
            return self._callees[fi.qual]
        out = []
        for n in body_nodes(fi):
            if isinstance(n, ast.Call):
                tg, ext = self.resolve_call(fi, n)
                out.append((n, tg, ext))
        for (attr, acc, role) in self.property_accesses(fi):
            out.append((attr, [acc], None))
        self._callees[fi.qual] = out
        return out

    def closure(self, roots: Iterable[FuncInfo], include_nested_defs: bool = True, stop: Iterable[str] = ()) -> Dict[str, FuncInfo]:
        """Transitive callees (internal functions only).  Nested functions defined in a reached
        function are included too (they may be called through a variable)."""
        seen: Dict[str, FuncInfo] = {}
        todo = list(roots)
        stop = set(stop)
        while todo:
            f = todo.pop()
            if f.qual in seen or f.qual in stop:
                continue
            seen[f.qual] = f
            for (_, tg, _) in self.callees(f):
                for t in tg:
                    if t.qual not in seen:
                        todo.append(t)
            if include_nested_defs:
                for nf in f.nested_all:
                    if nf.qual not in seen:
                        todo.append(nf)
        return seen

    def stats(self, modules_prefix="signac"):
        tot = res = 0
        unresolved = []
        for fi in self.prog.funcs.values():
            if not fi.module.name.startswith(modules_prefix):
                continue
            for (n, tg, ext) in self.callees(fi):
                if not isinstance(n, ast.Call):
                    continue
                tot += 1
                if tg or ext:
                    res += 1
                else:
                    unresolved.append((fi.qual, n.lineno, stmt_key(n.func, 60)))
        return tot, res, unresolved


# ---------------------------------------------------------------------------
# effect table
# ---------------------------------------------------------------------------

# fully qualified external callable -> (effect class, index of the *target* argument, keyword name of it)
MUTATING = {
    "os.replace": ("rename", 1, "dst"),
    "os.rename": ("rename", 1, "dst"),
    "os.renames": ("rename", 1, "new"),
    "os.remove": ("delete", 0, "path"),
    "os.unlink": ("delete", 0, "path"),
    "os.rmdir": ("delete", 0, "path"),
    "os.removedirs": ("delete", 0, "name"),
    "os.mkdir": ("mkdir", 0, "path"),
    "os.makedirs": ("mkdir", 0, "name"),
    "os.symlink": ("link", 1, "dst"),
    "os.link": ("link", 1, "dst"),
    "os.chown": ("meta", 0, "path"),
    "os.chmod": ("meta", 0, "path"),
    "os.utime": ("meta", 0, "path"),
    "os.truncate": ("write", 0, "path"),
    "shutil.copy": ("write", 1, "dst"),
    "shutil.copy2": ("write", 1, "dst"),
    "shutil.copyfile": ("write", 1, "dst"),
    "shutil.copymode": ("meta", 1, "dst"),
    "shutil.copystat": ("meta", 1, "dst"),
    "shutil.copytree": ("write", 1, "dst"),
    "shutil.rmtree": ("delete", 0, "path"),
    "shutil.move": ("rename", 1, "dst"),
    "shutil.make_archive": ("write", 0, "base_name"),
    "tempfile.TemporaryDirectory": ("scratch", None, None),
    "tempfile.mkdtemp": ("scratch", None, None),
    "tempfile.mkstemp": ("scratch", None, None),
    "tempfile.NamedTemporaryFile": ("scratch", None, None),
}
OPENERS = {"builtins.open": (1, "mode", "r"), "open": (1, "mode", "r"), "io.open": (1, "mode", "r"),
           "gzip.open": (1, "mode", "rb"), "bz2.open": (1, "mode", "rb"), "lzma.open": (1, "mode", "rb"),
           "zipfile.ZipFile": (1, "mode", "r"), "tarfile.open": (1, "mode", "r"), "tarfile.TarFile.open": (1, "mode", "r")}
# method names that mutate when called on an external (non-signac) object of the given type tag
EXT_METHOD_MUTATING = {
    (CONFIGOBJ, "write"): "write",
}
SYNCED_MUTATORS = {"clear", "reset", "update", "pop", "popitem", "setdefault", "append", "extend", "insert", "remove",
                   "sort", "reverse", "__setitem__", "__delitem__", "__setattr__", "__delattr__"}
SYNCED_TYPES = {SPDICT, JSONDOC}


@dataclass
class Effect:
    kind: str  # rename delete mkdir link meta write scratch open-write docmut unknown-open
    prim: str  # e.g. os.replace, open(wb)
    fi: FuncInfo
    node: ast.AST  # the call / statement
    target: Optional[ast.AST] = None  # target argument expression (path being modified) or receiver
    source: Optional[ast.AST] = None

    @property
    def site(self):
        return f"{self.fi.module.rel}:{getattr(self.node, 'lineno', 0)}"


class Effects:
    def __init__(self, calls: Calls):
        self.calls = calls
        self.prog = calls.prog
        self._direct: Dict[str, List[Effect]] = {}

    def open_mode(self, fi: FuncInfo, call: ast.Call, ext: str):
        idx, kw, default = OPENERS[ext]
        modearg = arg_or_kw(call, idx, kw)
        if modearg is None:
            if has_star_kwargs(call) or any(isinstance(a, ast.Starred) for a in call.args):
                return UNKNOWN
            return default
        return self.calls.folder.fold(modearg, fi, env=single_assign_env(fi))

    def direct(self, fi: FuncInfo) -> List[Effect]:
        if fi.qual in self._direct:
            return self._direct[fi.qual]
        out: List[Effect] = []
        env = self.calls.var_env(fi)
        for (n, tg, ext) in self.calls.callees(fi):
            if not isinstance(n, ast.Call):
                continue
            if ext in MUTATING:
                kind, idx, kw = MUTATING[ext]
                tgt = arg_or_kw(n, idx, kw) if idx is not None else None
                src = n.args[0] if (idx == 1 and n.args) else None
                out.append(Effect(kind, ext, fi, n, tgt, src))
            elif ext in OPENERS:
                mode = self.open_mode(fi, n, ext)
                if mode is UNKNOWN or not isinstance(mode, str):
                    out.append(Effect("unknown-open", f"{ext}(mode=?)", fi, n, n.args[0] if n.args else None))
                elif any(c in mode for c in "wax+"):
                    out.append(Effect("open-write", f"{ext}({mode})", fi, n, n.args[0] if n.args else kwarg(n, "file") or kwarg(n, "name")))
            elif ext and isinstance(n.func, ast.Attribute):
                bt = self.calls.type_of(n.func.value, fi, env)
                if bt and (bt, n.func.attr) in EXT_METHOD_MUTATING:
                    out.append(Effect("write", f"{bt}.{n.func.attr}", fi, n, n.func.value))
                elif bt in SYNCED_TYPES and n.func.attr in SYNCED_MUTATORS:
                    out.append(Effect("docmut", f"{bt.split(':')[-1]}.{n.func.attr}", fi, n, n.func.value))
        # subscript / attribute stores on synced collections
        for n in body_nodes(fi):
            tgts = []
            if isinstance(n, ast.Assign):
                tgts = n.targets
            elif isinstance(n, (ast.AugAssign, ast.AnnAssign)):
                tgts = [n.target]
            elif isinstance(n, ast.Delete):
                tgts = n.targets
            for t in tgts:
                if isinstance(t, (ast.Subscript, ast.Attribute)):
                    if isinstance(t, ast.Attribute) and t.attr.startswith("_"):
                        continue  # protected attribute of the collection object itself, not a data key
                    bt = self.calls.type_of(t.value, fi, env)
                    if bt in SYNCED_TYPES:
                        out.append(Effect("docmut", f"{bt.split(':')[-1]}[...]=", fi, n, t.value))
        self._direct[fi.qual] = out
        return out

    def transitive(self, roots: Iterable[FuncInfo], stop: Iterable[str] = ()) -> Tuple[List[Effect], Dict[str, FuncInfo]]:
        cl = self.calls.closure(roots, stop=stop)
        eff: List[Effect] = []
        for f in cl.values():
            eff.extend(self.direct(f))
        return eff, cl
