"""C09 - state point corruption is always detected, never accepted, and repairable."""
import ast

from ..engine import rule, Ctx
from ..core import UNKNOWN, dotted, kwarg, body_nodes, inline, stmt_key, canon, walk_no_nested, arg_or_kw
from ..exc import ExcFacts
from . import common

PROP = "C09"
FLOOR = 14
EXPLANATION = (
    "Decided (structural necessary conditions): (a) in _StatePointDict.load and Project._get_statepoint_from_workspace every "
    "path from the read of the state point file to a normal return / in-memory update passes a guard that compares "
    "calc_id(<data read>) with the id parameter and raises on mismatch (the guard may be conditional only on the "
    "'validate' flag); _load_from_resource is called on a state point only from load; Job.statepoint's lazy branch caches "
    "and registers only what load returned; unvalidated reads (validate=False) occur only inside repair(); "
    "(b) check() iterates the directory listing, validates every job through the workspace reader (never the cache), "
    "keeps going after a corrupted job and raises iff something was collected; (c) in repair()'s per-job loop no state "
    "point lookup error (KeyError, JobsCorruptedError) can escape the loop body, and every init() in the loop sits in a "
    "try that survives OSError, ValueError (decode errors) and JobsCorruptedError; (d) repair() itself only renames job "
    "directories and re-initialises state point files: its own mutating primitives are renames, and the only mutating "
    "callee is Job.init."
    ' Data read from a state point file is not *used* (in-memory update, return, registration) before the comparison; check() validates job by job (not through one bulk map call); repair() looks state points up cache-first; its loops carry nothing between jobs.'
    ' (g) What _read_cache reads from the file overrides unvalidated entries in memory (repair relies on it).'
    ' check() written with all(map(...)) / any(map(...)) is read as the short-circuiting loop it is (a break after the first corrupted job is a violation).'
)
UNDECIDED = ("Detection for every byte-level damage depends on json and MD5 semantics and is not decided; nor is the "
             "content of documents / data files after repair (only that repair has no code that touches them).")
ASSUMPTIONS = ["json.loads raises ValueError (JSONDecodeError / UnicodeDecodeError) on unparsable input."]

CALC = "signac.job:calc_id"
LOAD = "signac.job:_StatePointDict.load"
WSREAD = "signac.project:Project._get_statepoint_from_workspace"
GETSP = "signac.project:Project._get_statepoint"
REPAIR = "signac.project:Project.repair"
CHECK = "signac.project:Project.check"


def common_is_suffix(t):
    return isinstance(t, ast.BinOp) and isinstance(t.op, ast.Add) and isinstance(t.right, ast.Constant) and isinstance(t.right.value, str) and t.right.value != ""


def _is_calc_id_call(ctx, fi, node):
    return isinstance(node, ast.Call) and CALC in common.targets_of(ctx, fi, node)


def mismatch_branch(ctx, fi, test, idname, flags):
    """Which branch of `if test` is taken when calc_id(x) differs from the id parameter.
    Returns ('body'|'orelse', hashed expression, set of flag names that must be true) or None."""
    if isinstance(test, ast.UnaryOp) and isinstance(test.op, ast.Not):
        r = mismatch_branch(ctx, fi, test.operand, idname, flags)
        if r:
            return ("orelse" if r[0] == "body" else "body", r[1], r[2])
        return None
    if isinstance(test, ast.Compare) and len(test.ops) == 1 and isinstance(test.ops[0], (ast.Eq, ast.NotEq)):
        l, r = test.left, test.comparators[0]
        for a, b in ((l, r), (r, l)):
            if _is_calc_id_call(ctx, fi, a) and isinstance(b, ast.Name) and b.id == idname and a.args:
                return ("body" if isinstance(test.ops[0], ast.NotEq) else "orelse", a.args[0], set())
        return None
    if isinstance(test, ast.BoolOp):
        for i, v in enumerate(test.values):
            r = mismatch_branch(ctx, fi, v, idname, flags)
            if not r:
                continue
            others = [x for j, x in enumerate(test.values) if j != i]
            if isinstance(test.op, ast.Or) and r[0] == "body":
                return r  # mismatch makes the disjunction true
            if isinstance(test.op, ast.And) and r[0] == "orelse":
                return r  # mismatch makes the conjunction false
            if isinstance(test.op, ast.And) and r[0] == "body":
                # mismatch /\ flags => body, only if every other conjunct is a known flag parameter
                if all(isinstance(o, ast.Name) and o.id in flags for o in others):
                    return ("body", r[1], r[2] | {o.id for o in others})
            return None
    return None


def always_raises(stmts):
    if not stmts:
        return False
    last = stmts[-1]
    if isinstance(last, ast.Raise):
        return True
    if isinstance(last, ast.If):
        return always_raises(last.body) and always_raises(last.orelse)
    return False


def _guard_check(ctx, R, fi, idname, flags, read_pred, sink_desc):
    """Common part of C09-a for one reader function."""
    out = []
    cfg = ctx.cfg(fi)
    env = ctx.env(fi)
    # the read statement(s)
    read_nodes = [n for n in cfg.stmt_nodes() if any(read_pred(x) for sub in _own(n.ast) for x in walk_no_nested(sub))]
    if not read_nodes:
        return [ctx.inc(R, fi, fi.node, "no statement reading the state point file found")]
    # the variable the data is bound to
    datavars = set()
    for rn in read_nodes:
        if isinstance(rn.ast, ast.Assign) and len(rn.ast.targets) == 1 and isinstance(rn.ast.targets[0], ast.Name):
            datavars.add(rn.ast.targets[0].id)
    guards = []
    for n in cfg.stmt_nodes():
        if n.kind == "test" and isinstance(n.ast, ast.If):
            mb = mismatch_branch(ctx, fi, inline(n.ast.test, {k: v for k, v in env.items() if k not in datavars}), idname, flags)
            if not mb:
                continue
            branch, hashed, need = mb
            hashed_ok = isinstance(hashed, ast.Name) and hashed.id in datavars
            stm = n.ast.body if branch == "body" else n.ast.orelse
            if not hashed_ok:
                out.append(ctx.inc(R, fi, n.ast, f"id comparison hashes {stmt_key(hashed, 40)}, which is not the data just read ({sorted(datavars)})"))
                continue
            if not always_raises(stm):
                out.append(ctx.viol(R, fi, n.ast, "the id mismatch branch does not raise on every path: a state point whose hash differs from the id is accepted"))
                continue
            guards.append((n, need))
    guard_ids = {g.id for g, _ in guards}
    for rn in read_nodes:
        w = cfg.must_pass_after(rn.id, guard_ids, exits={cfg.exit}, kinds="n")
        if w is None and guards:
            need = set().union(*[nd for _, nd in guards])
            cond = f" (conditional on {sorted(need)})" if need else ""
            out.append(ctx.ok(R, fi, rn.ast, f"every normal path from the read to {sink_desc} passes the guard calc_id(data) != {idname} -> raise{cond}"))
        else:
            out.append(ctx.viol(R, fi, rn.ast, f"a path from the read of the state point file reaches {sink_desc} without comparing calc_id(data) with {idname}",
                                witness=cfg.describe_path(w) if w else None))
    # every *use* of the data (other than the comparison itself) comes after the guard: unvalidated content must not reach the in-memory state point,
    # the cache or the caller before it is known to belong to this id
    if guards:
        for n in cfg.stmt_nodes():
            if n in read_nodes or n.id in guard_ids or n.kind not in ("stmt", "test"):
                continue
            used = [x for sub in _own(n.ast) for x in walk_no_nested(sub) if isinstance(x, ast.Name) and x.id in datavars and isinstance(x.ctx, ast.Load)]
            # computing the hash of the data is part of the comparison, not a use
            hashed_args = {id(a) for sub in _own(n.ast) for c in walk_no_nested(sub) if isinstance(c, ast.Call) and (dotted(c.func) or "").split(".")[-1] == "calc_id" for a in c.args}
            used = [x for x in used if id(x) not in hashed_args]
            if not used:
                continue
            w = cfg.must_pass_before(n.id, guard_ids, kinds="n")
            if w is not None:
                out.append(ctx.viol(R, fi, n.ast, f"`{stmt_key(n.ast, 50)}` uses the content of the state point file before it was compared with {idname}: a file holding another (valid JSON) "
                                    "state point still raises JobsCorruptedError, but its content has already replaced the handle's in-memory state point, so the recovery paths "
                                    "(init(force=True), repair()) write the foreign state point back", witness=cfg.describe_path(w), construct=f"{fi.qual}|use-before-guard"))
    return out


def _own(st):
    from ..cfg import own_exprs
    return own_exprs(st)


@rule("C09-a")
def c09_a(ctx: Ctx):
    """Data read from a state point file is hash-checked against the id before it is returned, cached or loaded into memory."""
    R = "C09-a"
    out = []
    # 1. _StatePointDict.load
    fi = ctx.fn(LOAD)
    ids = [p for p in fi.params if p != "self"]
    if len(ids) != 1:
        out.append(ctx.inc(R, fi, fi.node, f"load has parameters {ids}, expected exactly the job id"))
    else:
        out += _guard_check(ctx, R, fi, ids[0], set(),
                            lambda x: isinstance(x, ast.Call) and isinstance(x.func, ast.Attribute) and x.func.attr == "_load_from_resource",
                            "the in-memory update / return")
    # 2. Project._get_statepoint_from_workspace
    fi2 = ctx.fn(WSREAD)
    p2 = [p for p in fi2.params if p != "self"]
    if not p2:
        out.append(ctx.inc(R, fi2, fi2.node, "no id parameter"))
    else:
        flags = set(p2[1:])
        def _helper_reads(x):
            if not isinstance(x, ast.Call):
                return None
            for tq in common.targets_of(ctx, fi2, x):
                g = ctx.prog.funcs.get(tq)
                if g is not None and not g.module.is_dep and any(isinstance(c, ast.Call) and common.ext_name(ctx, g, c) in ("json.loads", "json.load") for c in body_nodes(g)):
                    return g
            return None
        out += _guard_check(ctx, R, fi2, p2[0], flags,
                            lambda x: isinstance(x, ast.Call) and (common.ext_name(ctx, fi2, x) in ("json.loads", "json.load") or _helper_reads(x) is not None),
                            "the return of the state point")
        # a helper that decodes the file must not substitute a default for content that cannot be decoded
        for x in body_nodes(fi2):
            g = _helper_reads(x)
            if g is None:
                continue
            for r in [y for y in body_nodes(g) if isinstance(y, ast.Return) and y.value is not None]:
                alts = [r.value] if not isinstance(r.value, ast.IfExp) else [r.value.body, r.value.orelse]
                lit = [a for a in alts if isinstance(a, (ast.Dict, ast.List, ast.Constant, ast.Tuple)) or (isinstance(a, ast.Call) and isinstance(a.func, ast.Name) and a.func.id in ("dict", "list") and not a.args)]
                kx = WSREAD + "|no-default-content"
                if lit:
                    out.append(ctx.viol(R, g, r, f"the state point file is decoded by {g.name}(), which answers {canon(lit[0])} for a file it cannot decode (e.g. a zero-length file): a truncated "
                                        "state point file then validates for the job whose state point is that default, and check() accepts it", construct=kx))
                else:
                    out.append(ctx.ok(R, g, r, f"{g.name}() returns only what json decoded", construct=kx))
        # ... nor may the reader itself: `json.loads(text) if text else {}` / `json.loads(text) or {}`
        def _is_default_lit(a):
            return isinstance(a, (ast.Dict, ast.List, ast.Tuple)) or (isinstance(a, ast.Constant) and a.value is not None and not isinstance(a.value, bool)) \
                or (isinstance(a, ast.Call) and isinstance(a.func, ast.Name) and a.func.id in ("dict", "list") and not a.args)
        for n in body_nodes(fi2):
            if isinstance(n, (ast.IfExp, ast.BoolOp)):
                parts = [n.body, n.orelse] if isinstance(n, ast.IfExp) else (list(n.values) if isinstance(n.op, ast.Or) else [])
                dec = [p_ for p_ in parts if any(isinstance(c, ast.Call) and common.ext_name(ctx, fi2, c) in ("json.loads", "json.load") for c in ast.walk(p_))]
                lit = [p_ for p_ in parts if _is_default_lit(p_)]
                if dec and lit:
                    out.append(ctx.viol(R, fi2, n, f"the workspace reader answers {canon(lit[0])} for a state point file it does not decode (`{canon(n)[:60]}`): a truncated / zero-length state "
                                        "point file then validates for the job whose state point is that default, and check() accepts it", construct=WSREAD + "|no-default-content"))
        for fl in flags:
            d = fi2.default_of(fl)
            v = ctx.fold(d, fi2) if d is not None else UNKNOWN
            if v is True:
                out.append(ctx.ok(R, fi2, fi2.node, f"validation flag '{fl}' defaults to True", construct=WSREAD + "|default:" + fl))
            elif v is UNKNOWN:
                out.append(ctx.inc(R, fi2, fi2.node, f"default of '{fl}' is not a constant", construct=WSREAD + "|default:" + fl))
            else:
                out.append(ctx.viol(R, fi2, fi2.node, f"validation flag '{fl}' defaults to {v!r}: reads are unvalidated unless asked", construct=WSREAD + "|default:" + fl))
    # 2b. parse / decode / I-O errors of the workspace reader are reported as JobsCorruptedError (check() names the job)
    ex = ExcFacts(ctx)
    pm2 = ctx.parents(fi2)
    jl = [c for c in body_nodes(fi2) if isinstance(c, ast.Call) and common.ext_name(ctx, fi2, c) in ("json.loads", "json.load")]
    for c in jl:
        cur = pm2.get(id(c))
        tr = None
        while cur is not None:
            if isinstance(cur, ast.Try) and common.in_body_of(ctx, fi2, c, cur, ("body",)):
                tr = cur
                break
            cur = pm2.get(id(cur))
        k = WSREAD + "|error-mapping"
        if tr is None:
            out.append(ctx.viol(R, fi2, c, "reading the state point file is not protected: a damaged file surfaces as a raw decoding error and check() aborts without naming the job", construct=k))
            continue
        types = [t for h in tr.handlers for t in ex.handler_type_names(fi2, h)]
        missing = [e for e in ("OSError", "json.JSONDecodeError", "UnicodeDecodeError") if not ex.catches(types, e)]
        if missing:
            out.append(ctx.viol(R, fi2, tr, f"the handler around the state point read catches {types} but not {missing}: single-byte damage that breaks the text encoding (or the JSON syntax) "
                                "escapes as a raw error instead of JobsCorruptedError, check() aborts and names no job", construct=k))
        else:
            hs = [h for h in tr.handlers if ex.catches(ex.handler_type_names(fi2, h), "UnicodeDecodeError")]
            raises = [x for st in hs[0].body for x in walk_no_nested(st) if isinstance(x, ast.Raise)]
            if any((dotted(x.exc.func if isinstance(x.exc, ast.Call) else x.exc) or "").endswith("JobsCorruptedError") for x in raises if x.exc is not None):
                out.append(ctx.ok(R, fi2, tr, "I/O, JSON and decoding errors of the state point read are mapped to JobsCorruptedError / KeyError", construct=k))
            else:
                out.append(ctx.viol(R, fi2, hs[0], "the handler never raises JobsCorruptedError", construct=k))
    # 2b'. the reader opens the state point file and nothing else (no fall-back to backups / temporaries)
    opens = [c for c in body_nodes(fi2) if isinstance(c, ast.Call) and common.ext_name(ctx, fi2, c) in ("builtins.open", "open", "io.open")]
    for c in opens:
        t = common.inline_at(ctx, fi2, c.args[0], c) if c.args else None
        txt = canon(t) if t is not None else ""
        k = WSREAD + "|reads:" + stmt_key(c.args[0], 30) if c.args else WSREAD + "|reads"
        if "FN_STATE_POINT" in txt and "~" not in txt and not common_is_suffix(t):
            out.append(ctx.ok(R, fi2, c, "reads <workspace>/<id>/FN_STATE_POINT", construct=k))
        else:
            out.append(ctx.viol(R, fi2, c, f"the state point reader also opens {txt[:60]}: a parked backup / temporary is accepted as the job's state point, so a job whose state point file is "
                                "missing (crash between the two renames of a re-key) validates and check() stays silent", construct=k))
    # 2b''. KeyError ("no such job") only when the job directory does not exist; an existing directory with an unreadable file is corruption
    for r in [n for n in body_nodes(fi2) if isinstance(n, ast.Raise) and n.exc is not None and (dotted(n.exc.func if isinstance(n.exc, ast.Call) else n.exc) or "") == "KeyError"]:
        facts = common.facts_at(ctx, fi2, r, "nx")
        if any((not pol) and "os.path.isdir(" in t for (t, pol) in facts):
            out.append(ctx.ok(R, fi2, r, "KeyError only when the job directory does not exist", construct=WSREAD + "|keyerror-guard"))
        else:
            out.append(ctx.viol(R, fi2, r, f"KeyError ('no such job') is raised without having found the job directory absent (facts: {sorted(facts)}): a directory that exists but lacks its state point "
                                "file - the state left by a crash during init or between the renames of a re-key - is reported as 'not there' instead of as corrupted", construct=WSREAD + "|keyerror-guard"))
    # whatever valid JSON a damaged file holds (a list, null, a string), the comparison must end in JobsCorruptedError: the hash function itself raises nothing
    cid = ctx.fn("signac.job:calc_id")
    exf = ExcFacts(ctx)
    rz = sorted(exf.raised(cid))
    kc = "signac.job:calc_id|total"
    if rz:
        caught = False
        out.append(ctx.viol(R, cid, cid.node, f"calc_id() can raise {', '.join(x.split(':')[-1] for x in rz)} for data it does not like: the readers map only OSError / ValueError to "
                            "JobsCorruptedError, so a state point file that was replaced by valid JSON of another shape ([] , null, \"a\") makes check() / open_job die with that error "
                            "instead of naming the damaged job", construct=kc))
    else:
        out.append(ctx.ok(R, cid, cid.node, "calc_id() raises nothing of its own: any decoded JSON value is hashed and compared", construct=kc))
    from .lints import binary_data_io
    out += binary_data_io(ctx, R, [WSREAD], "so what is hashed is not what is in the file")
    gsp = ctx.fn(GETSP)
    for fl in [p for p in gsp.params if p == "validate"]:
        d = gsp.default_of(fl)
        v = ctx.fold(d, gsp) if d is not None else UNKNOWN
        kd = GETSP + "|default:" + fl
        if v is True:
            out.append(ctx.ok(R, gsp, gsp.node, "the cache-miss look-up _get_statepoint validates by default", construct=kd))
        elif v is False:
            out.append(ctx.viol(R, gsp, gsp.node, "_get_statepoint(..., validate=False) by default: every caller that does not ask for validation (Job.cached_statepoint, the index built for a "
                                "filtered find_jobs) accepts and caches a state point file that is valid JSON but does not hash to its directory name", construct=kd))
        else:
            out.append(ctx.inc(R, gsp, gsp.node, f"default of '{fl}' is not a constant", construct=kd))
    # 2c. registration overwrites: a validated state point replaces whatever an unvalidated look-up left in the cache
    reg = ctx.fn("signac.project:Project._register")
    st = [n for n in body_nodes(reg) if isinstance(n, ast.Assign) and any(isinstance(t, ast.Subscript) and canon(t.value) == "self._sp_cache" for t in n.targets)]
    sd = [n for n in body_nodes(reg) if isinstance(n, ast.Call) and isinstance(n.func, ast.Attribute) and n.func.attr == "setdefault"]
    upd = [n for n in body_nodes(reg) if isinstance(n, ast.Call) and isinstance(n.func, ast.Attribute) and n.func.attr == "update" and canon(n.func.value) == "self._sp_cache"]
    if (st or upd) and not sd:
        out.append(ctx.ok(R, reg, (st or upd)[0], "_register stores unconditionally: a validated state point replaces an entry left by an unvalidated read"))
    elif sd:
        out.append(ctx.viol(R, reg, sd[0], "_register keeps an existing cache entry (setdefault): an entry stored by repair()'s unvalidated look-up survives the later validated registration, "
                            "is written to the persistent cache and is handed out for that id in the next session"))
    else:
        out.append(ctx.inc(R, reg, reg.node, "_register shape not recognised"))
    # 3. who calls _load_from_resource on a state point
    n_callers = 0
    for f in ctx.prog.functions_of_module("signac.job") + ctx.prog.functions_of_module("signac.project"):
        for n in body_nodes(f):
            if isinstance(n, ast.Call) and isinstance(n.func, ast.Attribute) and n.func.attr in ("_load_from_resource",):
                n_callers += 1
                if f.qual == LOAD:
                    out.append(ctx.ok(R, f, n, "_load_from_resource is called from the validating load()"))
                else:
                    out.append(ctx.viol(R, f, n, "a state point file is read with _load_from_resource outside the validating load()"))
    # 4. Job.statepoint lazy branch caches / registers only what load() returned
    g = ctx.fn("signac.job:Job.statepoint")
    genv = ctx.env(g)
    found = 0
    for n in body_nodes(g):
        val = None
        what = None
        if isinstance(n, ast.Assign) and any(isinstance(t, ast.Attribute) and t.attr == "_cached_statepoint" for t in n.targets):
            val, what = n.value, "self._cached_statepoint"
        elif isinstance(n, ast.Call) and isinstance(n.func, ast.Attribute) and n.func.attr == "_register" and len(n.args) >= 2:
            val, what = n.args[1], "the project's state point cache"
        if val is None:
            continue
        found += 1
        v = inline(val, genv)
        if isinstance(v, ast.Call) and isinstance(v.func, ast.Attribute) and v.func.attr == "load" and LOAD in common.targets_of(ctx, g, v):
            out.append(ctx.ok(R, g, n, f"{what} receives the value returned by the validating load()"))
        else:
            out.append(ctx.viol(R, g, n, f"{what} receives {stmt_key(val, 50)}, which is not the result of the validating load()"))
    if not found:
        out.append(ctx.inc(R, g, g.node, "lazy state point branch: no cache write / _register found"))
    gcfg = ctx.cfg(g)
    clears = [n.id for n in gcfg.stmt_nodes() if isinstance(n.ast, ast.Assign) and any(canon(t) == "self._statepoint_requires_init" for t in n.ast.targets)
              and ctx.fold(n.ast.value, g) is False]
    # ... or a helper method of the same object that clears it
    for n in gcfg.stmt_nodes():
        if n.kind != "stmt":
            continue
        for c in walk_no_nested(n.ast):
            if isinstance(c, ast.Call) and isinstance(c.func, ast.Attribute) and canon(c.func.value) == "self":
                for tq in common.targets_of(ctx, g, c):
                    h = ctx.prog.funcs.get(tq)
                    if h is not None and any(isinstance(x, ast.Assign) and any(canon(t) == "self._statepoint_requires_init" for t in x.targets) and ctx.fold(x.value, h) is False
                                             for x in body_nodes(h)):
                        clears.append(n.id)
    loads = [n.id for n in gcfg.stmt_nodes() if n.kind == "stmt" and any(isinstance(c, ast.Call) and LOAD in common.targets_of(ctx, g, c) for c in walk_no_nested(n.ast))]
    if clears and loads:
        after = gcfg.reachable(clears, kinds="n")
        if any(l in after for l in loads):
            out.append(ctx.viol(R, g, gcfg.nodes[clears[0]].ast, "the 'state point still has to be initialised' flag is cleared before the validating load(): if that load raises (damaged or missing file) "
                                "the next access on the same handle skips the load and hands out the empty, unvalidated state point - which init() then writes to disk", construct=g.qual + "|flag-after-load"))
        else:
            out.append(ctx.ok(R, g, gcfg.nodes[clears[0]].ast, "the lazy-init flag is cleared only after the validating load() succeeded", construct=g.qual + "|flag-after-load"))
    else:
        out.append(ctx.inc(R, g, g.node, "lazy-init flag / load not found in the state point getter", construct=g.qual + "|flag-after-load"))
    # 5. unvalidated reads only in repair
    for f in ctx.prog.funcs.values():
        if f.module.is_dep:
            continue
        for n in body_nodes(f):
            if not isinstance(n, ast.Call):
                continue
            tq = common.targets_of(ctx, f, n)
            v = None
            if WSREAD in tq or GETSP in tq:
                v = arg_or_kw(n, 1, "validate")
            elif isinstance(n.func, (ast.Name, ast.Attribute)) and (dotted(n.func) or "").split(".")[-1] == "partial" and n.args \
                    and isinstance(n.args[0], ast.Attribute) and n.args[0].attr in (WSREAD.rsplit(".", 1)[-1], GETSP.rsplit(".", 1)[-1]):
                # functools.partial(self._get_statepoint_from_workspace, validate=...): the flag is fixed for every later call through the partial object
                v = kwarg(n, "validate") or (n.args[2] if len(n.args) > 2 else None)
            else:
                continue
            if True:
                if v is None:
                    continue
                fv = ctx.fold(v, f)
                if fv is True:
                    continue
                if isinstance(v, ast.Name) and v.id in f.params and f.qual == GETSP:
                    out.append(ctx.ok(R, f, n, "_get_statepoint forwards its own validate flag to the workspace reader"))
                    continue
                if f.qual == REPAIR:
                    out.append(ctx.ok(R, f, n, "unvalidated read inside repair(), which compares calc_id itself"))
                elif fv is UNKNOWN:
                    out.append(ctx.inc(R, f, n, f"validate={stmt_key(v, 30)} is not a constant"))
                else:
                    out.append(ctx.viol(R, f, n, f"state point read with validate={fv!r} outside repair(): an unvalidated state point can reach the caches"))
    return out


@rule("C09-b")
def c09_b(ctx: Ctx):
    """check() validates every listed job through the workspace reader, continues after a corrupted job, raises iff any was collected."""
    R = "C09-b"
    fi = ctx.desugared(ctx.fn(CHECK))
    out = []
    loops = [n for n in body_nodes(fi) if isinstance(n, ast.For)]
    target = None
    for lp in loops:
        it = common.inline_at(ctx, fi, lp.iter, lp)
        if isinstance(it, ast.Call) and isinstance(it.func, ast.Name) and it.func.id in ("list", "sorted", "tuple", "iter") and len(it.args) == 1:
            it = it.args[0]
        if isinstance(it, ast.Call):
            tq = common.targets_of(ctx, fi, it)
            if any(q in ("signac.project:Project._find_job_ids", "signac.project:Project._job_dirs") for q in tq):
                if it.args or it.keywords:
                    out.append(ctx.viol(R, fi, lp, "check() iterates a filtered selection of jobs, not the whole directory listing"))
                target = lp
                break
    if target is None:
        # positive pattern: the reader is handed to a map()-like bulk call - such a call re-raises exactly one worker exception
        bulk = [c for c in body_nodes(fi) if isinstance(c, ast.Call) and isinstance(c.func, ast.Attribute) and c.func.attr in ("map", "imap", "imap_unordered", "starmap", "map_async")
                and c.args and isinstance(c.args[0], ast.Attribute) and c.args[0].attr in ("_get_statepoint_from_workspace", "_get_statepoint")]
        bulk += [c for c in body_nodes(fi) if isinstance(c, ast.Call) and isinstance(c.func, ast.Name) and c.func.id == "map"
                 and c.args and isinstance(c.args[0], ast.Attribute) and c.args[0].attr in ("_get_statepoint_from_workspace", "_get_statepoint")]
        if bulk:
            return out + [ctx.viol(R, fi, bulk[0], f"check() validates all jobs through one bulk call ({canon(bulk[0])[:60]}): the call stops at / re-raises a single JobsCorruptedError, "
                                   "so with several damaged jobs only one of them is reported", construct=CHECK + "|per-job-try")]
        return out + [ctx.inc(R, fi, fi.node, "no loop over the job directory listing found in check()")]
    out.append(ctx.ok(R, fi, target, "check() iterates the directory listing (_find_job_ids() without filter)"))
    reads = []
    for st in target.body:
        for n in walk_no_nested(st):
            if isinstance(n, ast.Call):
                tq = common.targets_of(ctx, fi, n)
                if WSREAD in tq:
                    reads.append((n, "ws"))
                elif GETSP in tq:
                    reads.append((n, "cache"))
    if not reads:
        return out + [ctx.inc(R, fi, target, "loop body does not call a state point reader")]
    for n, kind in reads:
        if kind == "cache":
            out.append(ctx.viol(R, fi, n, "check() reads state points through the cache-backed _get_statepoint: a cached entry hides a damaged file"))
            continue
        v = arg_or_kw(n, 1, "validate")
        fv = True if v is None else ctx.fold(v, fi)
        if fv is True:
            out.append(ctx.ok(R, fi, n, "each job is read from the workspace with validation on"))
        elif fv is UNKNOWN:
            out.append(ctx.inc(R, fi, n, "validate argument is not a constant"))
        else:
            out.append(ctx.viol(R, fi, n, f"check() reads with validate={fv!r}: hash mismatches are not detected"))
        # enclosing try inside the loop
        pm = ctx.parents(fi)
        cur = pm.get(id(n))
        tr = None
        while cur is not None and cur is not target:
            if isinstance(cur, ast.Try) and common.in_body_of(ctx, fi, n, cur, ("body",)):
                tr = cur
                break
            cur = pm.get(id(cur))
        if tr is None:
            out.append(ctx.viol(R, fi, n, "the read is not inside a try within the loop: the first corrupted job aborts check() before later jobs are examined"))
            continue
        ex = ExcFacts(ctx)
        hs = [h for h in tr.handlers if ex.catches(ex.handler_type_names(fi, h), "signac.errors:JobsCorruptedError")]
        if not hs:
            out.append(ctx.viol(R, fi, tr, "no handler for JobsCorruptedError around the per-job read"))
            continue
        for h2 in tr.handlers:
            t2 = ex.handler_type_names(fi, h2)
            if h2 is not hs[0] and common.reraises_on_all_paths(ctx, fi, h2) is not None:
                out.append(ctx.viol(R, fi, h2, f"check() also swallows {t2} from the per-job read: a job directory whose state point cannot be looked up (e.g. directory without state point file) is "
                                    "skipped silently instead of being reported", construct=CHECK + "|extra-handler"))
        h = hs[0]
        bad = [x for st in h.body for x in walk_no_nested(st) if isinstance(x, (ast.Break, ast.Return, ast.Raise))]
        if bad:
            out.append(ctx.viol(R, fi, bad[0], f"the JobsCorruptedError handler leaves the loop ({type(bad[0]).__name__.lower()}): later jobs are not examined"))
        else:
            out.append(ctx.ok(R, fi, h, "the handler records the job and the loop continues"))
        # what is collected, and the final raise
        coll = None
        for st in h.body:
            for x in walk_no_nested(st):
                if isinstance(x, ast.Call) and isinstance(x.func, ast.Attribute) and x.func.attr in ("extend", "append", "add", "update") \
                        and isinstance(x.func.value, ast.Name):
                    coll = x.func.value.id
        if coll is None and h.name:
            # the handler hands the ids to a local that the loop body accumulates afterwards: `except E as e: t = e.job_ids` ... `for i in t: acc.append(i)` / `acc.extend(t)`
            temps = {st.targets[0].id for st in h.body if isinstance(st, ast.Assign) and len(st.targets) == 1 and isinstance(st.targets[0], ast.Name)
                     and any(isinstance(x, ast.Name) and x.id == h.name for x in ast.walk(st.value))}
            if temps:
                after = target.body[target.body.index(tr) + 1:] if tr in target.body else []
                for st in after:
                    loopvars = set()
                    if isinstance(st, ast.For) and isinstance(st.iter, ast.Name) and st.iter.id in temps and isinstance(st.target, ast.Name):
                        loopvars = {st.target.id}
                    for x in walk_no_nested(st):
                        if isinstance(x, ast.Call) and isinstance(x.func, ast.Attribute) and isinstance(x.func.value, ast.Name) and len(x.args) == 1 and isinstance(x.args[0], ast.Name):
                            if (x.func.attr in ("extend", "update") and x.args[0].id in temps) or (x.func.attr in ("append", "add") and x.args[0].id in loopvars):
                                coll = x.func.value.id
        if coll is None:
            out.append(ctx.viol(R, fi, h, "the handler does not record the corrupted job ids"))
            continue
        raises = [x for x in body_nodes(fi) if isinstance(x, ast.Raise) and not common.in_body_of(ctx, fi, x, target, ("body", "orelse"))]
        good = False
        for r in raises:
            e = r.exc
            if isinstance(e, ast.Call) and (dotted(e.func) or "").endswith("JobsCorruptedError") and e.args \
                    and isinstance(e.args[0], ast.Name) and e.args[0].id == coll:
                facts = common.facts_at(ctx, fi, r, "n")
                others = [f for f in facts if f != (coll, True)]
                if (coll, True) in facts and not others:
                    good = True
                    out.append(ctx.ok(R, fi, r, f"after the loop JobsCorruptedError({coll}) is raised iff {coll} is non-empty"))
                else:
                    out.append(ctx.viol(R, fi, r, f"the final raise is guarded by {sorted(facts)} rather than by '{coll}' alone"))
                    good = True
        if not good:
            out.append(ctx.viol(R, fi, fi.node, f"check() never raises JobsCorruptedError({coll}) after the loop"))
    return out


@rule("C09-c")
def c09_c(ctx: Ctx):
    """One unrecoverable job cannot abort the repair of the others: no lookup error escapes the per-job loop body; init() failures are survived."""
    R = "C09-c"
    fi = ctx.fn(REPAIR)
    out = []
    ex = ExcFacts(ctx)
    loops = [n for n in body_nodes(fi) if isinstance(n, ast.For)]
    if not loops:
        return [ctx.inc(R, fi, fi.node, "no per-job loop in repair()")]
    lp = loops[0]
    esc = ex.escaping(fi, lp.body)
    lookup = ex.raised(ctx.fn(GETSP)) | ex.raised(ctx.fn(WSREAD))
    must_handle = {e for e in lookup if e in ("KeyError",) or e.startswith("signac.errors:")}
    if not must_handle:
        out.append(ctx.inc(R, fi, lp, "could not determine what the state point lookup raises"))
    for e in sorted(must_handle):
        short = e.split(":")[-1]
        if e in esc:
            out.append(ctx.viol(R, fi, lp, f"{short}, raised by the state point lookup, can escape the per-job loop body of repair(): "
                                "the first such job aborts the repair of all later jobs", construct=REPAIR + "|escape:" + short))
        else:
            out.append(ctx.ok(R, fi, lp, f"{short} from the state point lookup is handled inside the loop body", construct=REPAIR + "|escape:" + short))
    # the look-up consults the cache first: a readable but foreign state point file must not take precedence over what the cache knows about this id
    direct = [c for st in lp.body for c in ast.walk(st) if isinstance(c, ast.Call) and WSREAD in common.targets_of(ctx, fi, c)]
    viaget = [c for st in lp.body for c in ast.walk(st) if isinstance(c, ast.Call) and GETSP in common.targets_of(ctx, fi, c)]
    kq = REPAIR + "|lookup-order"
    if direct:
        out.append(ctx.viol(R, fi, direct[0], "repair() reads the state point file directly (unvalidated) instead of going through the cache-first look-up: a state point file that was "
                            "replaced by another valid JSON object is trusted although the cache knows the real state point, and the job directory is renamed to the foreign id", construct=kq))
    elif viaget:
        out.append(ctx.ok(R, fi, viaget[0], "repair() looks the state point up through _get_statepoint (cache first, file only on a cache miss)", construct=kq))
    else:
        out.append(ctx.inc(R, fi, lp, "repair(): no state point look-up found in the loop", construct=kq))
    # init() calls in the loop must be survived
    pm = ctx.parents(fi)
    n_init = 0
    for st in lp.body:
        for n in walk_no_nested(st):
            if isinstance(n, ast.Call) and "signac.job:Job.init" in common.targets_of(ctx, fi, n):
                n_init += 1
                cur = pm.get(id(n))
                tr = None
                prev = n
                while cur is not None and cur is not lp:
                    if isinstance(cur, ast.Try) and common.in_body_of(ctx, fi, n, cur, ("body",)):
                        tr = cur
                        break
                    cur = pm.get(id(cur))
                if tr is None:
                    out.append(ctx.viol(R, fi, n, "init() in the repair loop is not inside a try: its failure aborts the repair of later jobs"))
                    continue
                types = [t for h in tr.handlers for t in ex.handler_type_names(fi, h)]
                missing = [c for c in ("OSError", "ValueError", "signac.errors:JobsCorruptedError") if not ex.catches(types, c)]
                if missing:
                    out.append(ctx.viol(R, fi, tr, f"the try around init() in the repair loop does not catch {', '.join(m.split(':')[-1] for m in missing)} "
                                        "(I/O, decode and corruption errors of the state point file): such a job aborts repair() before the forced re-init and before later jobs",
                                        construct=REPAIR + "|init-try:" + stmt_key(n, 40)))
                else:
                    out.append(ctx.ok(R, fi, tr, "init() failures (OSError, ValueError, JobsCorruptedError) are caught inside the loop",
                                      construct=REPAIR + "|init-try:" + stmt_key(n, 40)))
    if n_init == 0:
        out.append(ctx.inc(R, fi, lp, "repair loop does not call Job.init()"))
    else:
        forced = [n for st in lp.body for n in walk_no_nested(st) if isinstance(n, ast.Call) and isinstance(n.func, ast.Attribute)
                  and n.func.attr == "init" and ctx.fold(kwarg(n, "force"), fi) is True]
        if forced:
            out.append(ctx.ok(R, fi, forced[0], "a failed init() is followed by init(force=True) (rewrites the state point file)"))
        else:
            out.append(ctx.viol(R, fi, lp, "repair() never calls init(force=True): a damaged state point file is never rewritten"))
    return out


@rule("C09-d")
def c09_d(ctx: Ctx):
    """repair() touches only directory names and state point files: own primitives are renames; the only mutating callee is Job.init."""
    R = "C09-d"
    fi = ctx.fn(REPAIR)
    out = []
    for e in ctx.effects.direct(fi):
        if e.kind == "rename":
            out.append(ctx.ok(R, fi, e.node, f"{e.prim}: renames a job directory"))
        else:
            out.append(ctx.viol(R, fi, e.node, f"repair() performs {e.prim} ({e.kind}): it must not modify or delete job data"))
    for (n, tg, ext) in ctx.calls.callees(fi):
        for t in tg:
            if t.qual == "signac.job:Job.init":
                out.append(ctx.ok(R, fi, n, "Job.init: (re)creates directory and state point file only"))
                continue
            eff, cl = ctx.effects.transitive([t])
            mut = [x for x in eff if x.kind not in ("scratch",)]
            if mut:
                out.append(ctx.viol(R, fi, n, f"repair() calls {t.qual}, which can {mut[0].prim} at {mut[0].site}: repair must only rename directories and re-init state points"))
            else:
                out.append(ctx.ok(R, fi, n, f"{t.qual}: no mutating file-system effect in its call closure ({len(cl)} functions)", nontrivial=False))
    return out


@rule("C09-e")
def c09_e(ctx: Ctx):
    """repair(job_ids=...) repairs exactly the given jobs: only None means 'all jobs'."""
    from .lints import sentinel_discipline
    return sentinel_discipline(ctx, "C09-e", [("signac.project:Project.repair", "job_ids", "an empty selection must repair nothing; treated as 'not given' every job of the workspace is re-initialised / renamed")])


@rule("C09-f")
def c09_f(ctx: Ctx):
    """Per-job / per-entry loops are independent: nothing read in one iteration was computed in another."""
    from .lints import per_item_loops, late_binding_in_loops
    return late_binding_in_loops(ctx, "C09-f", ("signac.project",)) + per_item_loops(ctx, "C09-f", [('signac.project:Project.check', 'a job is judged by the result computed for the previous job: damaged jobs are missed or intact ones reported'), ('signac.project:Project.repair', 'a job is repaired with the state point looked up for the previous job')])


@rule("C09-g")
def c09_g(ctx: Ctx):
    """repair() can rely on the persistent cache: what _read_cache reads from the file overrides unvalidated entries already in memory (from C08-d)."""
    from .c08 import c08_d
    res = [r for r in c08_d(ctx) if "file-content-wins" in r.construct]
    for r in res:
        r.rule = "C09-g"
    return res or [ctx.inc("C09-g", None, None, "precedence of the cache file in _read_cache not determined", construct="c09g|none")]


RULES = [c09_a, c09_b, c09_c, c09_d, c09_e, c09_f, c09_g]
