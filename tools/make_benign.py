#!/venv/bin/python
"""Generate /verif/seeded/benign/*.json: behaviour-preserving edits of /repo/signac that every check must stay silent on.
Each variant = list of (file, old, new) text replacements (old must occur exactly once).  The generator verifies that each
variant applies to the current /repo and still compiles; it does not run any check."""
import json, os, sys, ast

REPO = "/repo"
OUT = "/verif/seeded/benign"
V = []


def v(id_, props, why, *edits):
    V.append({"id": id_, "props": props, "why_benign": why, "edits": [{"file": f, "old": o, "new": n} for (f, o, n) in edits]})


J, P, S, IE, LV, FPA, SI, SCH, CFG_, MIG = ("signac/job.py", "signac/project.py", "signac/sync.py", "signac/import_export.py", "signac/linked_view.py",
                                           "signac/filterparse.py", "signac/_search_indexer.py", "signac/schema.py", "signac/_config.py", "signac/migration/__init__.py")

v("b01-calcid-inline-md5", ["C01", "C09"], "same digest, hash object not bound to a local",
  (J, "    m = hashlib.md5()\n    m.update(blob.encode())\n    return m.hexdigest()\n", "    return hashlib.md5(blob.encode()).hexdigest()\n"))
v("b02-calcid-explicit-separators", ["C01"], "default separators spelled out",
  (J, "cls=SyncedCollectionJSONEncoder, sort_keys=True)", 'cls=SyncedCollectionJSONEncoder, sort_keys=True, separators=(", ", ": "))'))
v("b03-calcid-rename-local", ["C01"], "local renamed",
  (J, "    blob = json.dumps(statepoint,", "    text = json.dumps(statepoint,"), (J, "    m.update(blob.encode())", "    m.update(text.encode())"))
v("b04-calcid-explicit-utf8", ["C01"], "default codec spelled out", (J, "m.update(blob.encode())", 'm.update(blob.encode("utf-8"))'))
v("b05-save-hoist-exists", ["C02", "C12", "C11"], "existence test hoisted into a local",
  (J, "            if force or not os.path.isfile(self.filename):\n                super()._save()",
      "            exists = os.path.isfile(self.filename)\n            if force or not exists:\n                super()._save()"))
v("b06-load-hoist-calcid", ["C01", "C09"], "hash bound to a local before the comparison",
  (J, "        if calc_id(data) != job_id:\n            raise JobsCorruptedError([job_id])\n\n        with self._suspend_sync:",
      "        expected = calc_id(data)\n        if expected != job_id:\n            raise JobsCorruptedError([job_id])\n\n        with self._suspend_sync:"))
v("b07-remove-reorder-resets", ["C03", "C05"], "independent resets reordered",
  (J, "            else:\n                if self._document is not None:\n                    try:\n                        self._document.clear()",
      "            else:\n                self._stores = None\n                if self._document is not None:\n                    try:\n                        self._document.clear()"),
  (J, "                    self._document = None\n                self._stores = None\n", "                    self._document = None\n"))
v("b08-move-errno-order", ["C04", "C11"], "errno tuple reordered",
  (J, "                elif error.errno in (errno.EEXIST, errno.ENOTEMPTY, errno.EACCES):\n                    raise DestinationExistsError(dst)",
      "                elif error.errno in (errno.ENOTEMPTY, errno.EACCES, errno.EEXIST):\n                    raise DestinationExistsError(dst)"))
v("b09-save-iterate-list-copy", ["C03", "C04", "C05"], "iterates a copy of the same list",
  (J, "        for job in self._jobs:\n            job._id = new_id", "        for job in list(self._jobs):\n            job._id = new_id"))
v("b10-update-statepoint-hoist-items", ["C04"], "items() hoisted",
  (J, "            for key, value in update.items():\n                if statepoint.get(key, value) != value:",
      "            items = update.items()\n            for key, value in items:\n                if statepoint.get(key, value) != value:"))
v("b11-init-extra-logging", ["C02", "C11", "C12"], "logging only",
  (J, "                    self._directory_known = True\n\n                    # The state point save",
      "                    self._directory_known = True\n                    logger.debug('Created workspace directory.')\n\n                    # The state point save"))
v("b12-jobdirs-re-fullmatch", ["C03", "C12", "C08"], "module level re API with the same compiled pattern",
  (P, "                if JOB_ID_REGEX.fullmatch(d):", "                if re.fullmatch(JOB_ID_REGEX, d):"))
v("b13-update-cache-rename-local", ["C08", "C03", "C10"], "local renamed",
  (P, "        cached_ids = set(self._sp_cache)\n        if cache is None or set(cache) != cached_ids:",
      "        current_ids = set(self._sp_cache)\n        if cache is None or set(cache) != current_ids:"))
v("b14-update-cache-tmp-suffix", ["C10", "C03", "C08"], "other temporary suffix",
  (P, '            fn_cache_tmp = fn_cache + "~"', '            fn_cache_tmp = fn_cache + ".tmp"'))
v("b15-check-rename-local", ["C09"], "local renamed",
  (P, "        corrupted = []\n        logger.info(\"Checking workspace for corruption...\")", "        bad_ids = []\n        logger.info(\"Checking workspace for corruption...\")"),
  (P, "                corrupted.extend(error.job_ids)\n        if corrupted:\n            logger.error(\n                \"At least one job appears to be corrupted. Call Project.repair() \"\n                \"to try to fix errors.\"\n            )\n            raise JobsCorruptedError(corrupted)",
      "                bad_ids.extend(error.job_ids)\n        if bad_ids:\n            logger.error(\n                \"At least one job appears to be corrupted. Call Project.repair() \"\n                \"to try to fix errors.\"\n            )\n            raise JobsCorruptedError(bad_ids)"))
v("b16-repair-handler-order", ["C09", "C11"], "exception tuple reordered",
  (P, "            except (KeyError, JobsCorruptedError):", "            except (JobsCorruptedError, KeyError):"))
v("b17-document-write-concern-local", ["C10", "C05", "C12"], "constant bound to a local",
  (P, "                fn_doc = os.path.join(self.path, self.FN_DOCUMENT)\n                self._document = BufferedJSONAttrDict(\n                    filename=fn_doc, write_concern=True\n                )\n        return self._document\n\n    @document.setter\n    def document(self, new_doc):\n        \"\"\"Setter method",
      "                fn_doc = os.path.join(self.path, self.FN_DOCUMENT)\n                atomic = True\n                self._document = BufferedJSONAttrDict(\n                    filename=fn_doc, write_concern=atomic\n                )\n        return self._document\n\n    @document.setter\n    def document(self, new_doc):\n        \"\"\"Setter method"))
v("b18-openjob-deepcopy-local", ["C01", "C02"], "deep copy bound to a local first",
  (P, "            return Job(project=self, statepoint=deepcopy(statepoint))", "            sp_copy = deepcopy(statepoint)\n            return Job(project=self, statepoint=sp_copy)"))
v("b19-findjobids-hoist-rootkeys", ["C06", "C07"], "root keys bound to a local",
  (P, "        index = _SearchIndexer(\n            self._build_index(include_job_document=\"doc\" in _root_keys(filter))\n        )",
      "        root_keys = set(_root_keys(filter))\n        index = _SearchIndexer(\n            self._build_index(include_job_document=\"doc\" in root_keys)\n        )"))
v("b20-clone-branch-order", ["C04", "C11"], "errno branches reordered",
  (P, "            if error.errno == errno.EEXIST:\n                raise DestinationExistsError(dst)\n            elif error.errno == errno.ENOENT:\n                raise ValueError(\"Source job not initialized.\")",
      "            if error.errno == errno.ENOENT:\n                raise ValueError(\"Source job not initialized.\")\n            elif error.errno == errno.EEXIST:\n                raise DestinationExistsError(dst)"))
v("b21-getjob-dirname", ["C19"], "parent computed with dirname instead of join(.., pardir)",
  (P, "        project = cls.get_project(os.path.join(job_path, os.pardir))", "        project = cls.get_project(os.path.dirname(job_path))"))
v("b22-schema-check-order", ["C20"], "older branch tested before newer branch",
  (P, "        if config_schema_version > schema_version:", "        if config_schema_version < schema_version:\n            raise IncompatibleSchemaVersion(\"The project uses an older schema version; run 'python -m signac migrate'.\")\n        elif config_schema_version > schema_version:"))
v("b23-proxy-copy-early-return", ["C15", "C13"], "guard written as early return",
  (S, "        \"\"\"Copy src to dst.\"\"\"\n        if not self.dry_run:\n            shutil.copy(src, dst)\n\n    def _copy_p",
      "        \"\"\"Copy src to dst.\"\"\"\n        if self.dry_run:\n            return\n        shutil.copy(src, dst)\n\n    def _copy_p"))
v("b24-strategy-verdict-local", ["C14", "C13"], "strategy verdict bound to a local",
  (S, "            if strategy(src, dst, os.path.join(subdir, fn)):\n                copy(fn_src, fn_dst)",
      "            overwrite = strategy(src, dst, os.path.join(subdir, fn))\n            if overwrite:\n                copy(fn_src, fn_dst)"))
v("b25-bykey-prefix-local", ["C14", "C13"], "recursion root bound to a local",
  (S, "                        self(src[key], dst[key], root + key + \".\")", "                        prefix = root + key + \".\"\n                        self(src[key], dst[key], prefix)"))
v("b26-exclude-concat", ["C13", "C15"], "list concatenation instead of append",
  (S, "    exclude.append(src.FN_STATE_POINT)\n", "    exclude = exclude + [src.FN_STATE_POINT]\n"))
v("b27-backup-baseexception", ["C14"], "bare except spelled as BaseException",
  (S, "            self._copy2(path, path_backup)\n            yield path_backup\n        except:  # noqa roll-back", "            self._copy2(path, path_backup)\n            yield path_backup\n        except BaseException:  # roll-back"))
v("b28-zip-within-local", ["C16"], "prefix bound to a local",
  (IE, "    return name == directory or name.startswith(directory.rstrip(\"/\") + \"/\")", "    prefix = directory.rstrip(\"/\") + \"/\"\n    return name == directory or name.startswith(prefix)"))
v("b29-export-logging", ["C16", "C17"], "logging only",
  (IE, "    for src, dst in paths.items():\n        copytree(src, dst)\n        yield src, dst", "    for src, dst in paths.items():\n        logger.debug(f\"Export '{src}' -> '{dst}'.\")\n        copytree(src, dst)\n        yield src, dst"))
v("b30-rootkeys-set-literal", ["C06", "C07"], "tuple of operators written as a set literal",
  (FPA, "def _root_keys(filter):\n    for key, value in filter.items():\n        if key in (\"$and\", \"$or\"):", "def _root_keys(filter):\n    for key, value in filter.items():\n        if key in {\"$and\", \"$or\"}:"))
v("b31-index-operators-order", ["C06"], "operator tuple reordered",
  (SI, "    \"$eq\",\n    \"$gt\",\n", "    \"$gt\",\n    \"$eq\",\n"))
v("b32-schema-strip-slice3", ["C18"], "len('sp.') written as 3", (SCH, "    return key[len(\"sp.\") :]", "    return key[3:]"))
v("b33-migrations-order", ["C20"], "registry dict entries reordered",
  (MIG, "    (0, 1): _migrate_v0_to_v1,\n    (1, 2): _migrate_v1_to_v2,\n", "    (1, 2): _migrate_v1_to_v2,\n    (0, 1): _migrate_v0_to_v1,\n"))
v("b34-linkedview-links-logging", ["C17"], "logging only",
  (LV, "    for job in jobs:\n        paths = os.path.join(path_function(job), \"job\")\n        links[paths] = job.path",
       "    for job in jobs:\n        paths = os.path.join(path_function(job), \"job\")\n        logger.debug(f\"Link {paths}.\")\n        links[paths] = job.path"))
v("b35-docproxy-setitem-early-return", ["C15"], "guard written as early return",
  (S, "        logger.more(f\"Set '{key}'='{value}'.\")\n        if not self.dry_run:\n            self.doc[key] = value", "        logger.more(f\"Set '{key}'='{value}'.\")\n        if self.dry_run:\n            return\n        self.doc[key] = value"))
v("b36-jobsync-unrelated-edit", ["C13", "C15", "C14"], "docstring-level change only",
  (J, "        sync_jobs(\n            src=other,\n            dst=self,", "        source_job = other\n        sync_jobs(\n            src=source_job,\n            dst=self,"))
v("b37-mkdirp-positional", ["C12", "C19"], "unrelated comment / same call", (os.path.join("signac", "_utility.py"), "        os.makedirs(path, exist_ok=True)", "        os.makedirs(path, mode=0o777, exist_ok=True)"))
v("b38-config-locate-rename", ["C19", "C20"], "local renamed",
  (CFG_, "    orig_search_path = search_path\n", "    start_path = search_path\n"), (CFG_, "    search_path = os.path.abspath(orig_search_path)\n", "    search_path = os.path.abspath(start_path)\n"))


v("b39-openjob-sentinel-order", ["C02", "C01"], "operands of the None tests swapped",
  (P, "        if statepoint is None and id is None:\n            raise ValueError(\"Must provide statepoint or id.\")", "        if id is None and statepoint is None:\n            raise ValueError(\"Must provide statepoint or id.\")"))
v("b40-groupby-hoist-sorted", ["C07", "C18"], "sorted() hoisted into a local",
  (P, "        yield from groupby(\n            sorted(\n                iter(self._project.find_jobs(_filter)),\n                key=keyfunction,\n            ),\n            key=keyfunction,\n        )",
      "        ordered = sorted(\n            iter(self._project.find_jobs(_filter)),\n            key=keyfunction,\n        )\n        yield from groupby(ordered, key=keyfunction)"))
v("b41-findresult-ior-fresh-set", ["C06"], "in-place union on the locally created set",
  (SI, "                or_results.update(self._find_result(expr_))", "                or_results |= self._find_result(expr_)"))
v("b42-register-update", ["C09", "C01", "C08"], "store spelled as update() of one item",
  (P, "        self._sp_cache[id_] = statepoint\n", "        self._sp_cache.update({id_: statepoint})\n"))
v("b43-project-abspath-normpath", ["C05", "C19"], "extra normalisation inside abspath",
  (P, "        self._path = os.path.abspath(path)", "        self._path = os.path.abspath(os.path.normpath(path))"))
v("b44-wsread-handler-order", ["C09", "C11", "C01"], "exception tuple reordered",
  (P, "        except (OSError, ValueError) as error:\n            if os.path.isdir(os.sep.join((self.workspace, job_id))):", "        except (ValueError, OSError) as error:\n            if os.path.isdir(os.sep.join((self.workspace, job_id))):"))
v("b45-structure-check-reverse-prefixes", ["C16", "C17"], "prefixes enumerated from the longest to the shortest",
  (IE, "        for i in range(1, len(tokens)):\n            nodes.add(os.path.sep.join(tokens[:i]))", "        for i in range(len(tokens) - 1, 0, -1):\n            nodes.add(os.path.sep.join(tokens[:i]))"))
v("b46-selection-logging", ["C13", "C15"], "logging only (truthiness of the selection decides a log message, as in the existing code)",
  (S, "    if selection:\n        logger.info(\n            \"Synchronizing selection", "    if selection:\n        logger.debug(\"A selection was given.\")\n    if selection:\n        logger.info(\n            \"Synchronizing selection"))
v("b47-clear-skip-set-local", ["C03", "C05"], "skip tuple bound to a local",
  (J, "            for fn in os.listdir(self.path):\n                if fn in (self.FN_STATE_POINT, self.FN_DOCUMENT):\n                    continue",
      "            keep = (self.FN_STATE_POINT, self.FN_DOCUMENT)\n            for fn in os.listdir(self.path):\n                if fn in keep:\n                    continue"))
v("b48-readcache-update-kw", ["C08"], "merge spelled with dict unpacking into update",
  (P, "            self._sp_cache.update(cache)\n", "            self._sp_cache.update(dict(cache))\n"))
v("b49-mkdirp-comment-noop", ["C12"], "equivalent test spelled with `is False`",
  (os.path.join("signac", "_utility.py"), "    if not os.path.isdir(path):\n        os.makedirs(path, exist_ok=True)", "    if os.path.isdir(path) is False:\n        os.makedirs(path, exist_ok=True)"))
v("b50-doc-setter-local", ["C05", "C10"], "handle bound to a local before the single reset",
  (J, "        self.document.reset(new_doc)", "        doc = self.document\n        doc.reset(new_doc)"))


v("b51-cache-size-logging", ["C08", "C02", "C03"], "cache size used in a log message only",
  (P, "            statepoint = self._get_statepoint_from_workspace(job_id, validate)\n            # Update the project's state point cache from this cache miss",
      "            statepoint = self._get_statepoint_from_workspace(job_id, validate)\n            logger.debug(f\"cache miss; {len(self._sp_cache)} entries cached\")\n            # Update the project's state point cache from this cache miss"))
v("b52-docsync-none-order", ["C14", "C13"], "equivalent None test written the other way round",
  (S, "    # The doc_sync functions defaults to a safe \"by_key\" strategy.\n    if doc_sync is None:\n        doc_sync = DocSync.ByKey()", "    # The doc_sync functions defaults to a safe \"by_key\" strategy.\n    if None is doc_sync:\n        doc_sync = DocSync.ByKey()"))
v("b53-repair-jobids-else", ["C09"], "None test with explicit else",
  (P, "        if job_ids is None:\n            job_ids = self._find_job_ids()\n\n        # Load internal cache", "        if job_ids is not None:\n            job_ids = list(job_ids)\n        else:\n            job_ids = self._find_job_ids()\n\n        # Load internal cache"))


# ---- variants for the rules added after round 4
v("b54-exclude-trim-private-copy", ["C13", "C15"], "sync_jobs trims its own (private) copy of the exclude list again - the caller's list is not touched either way",
  (S, "        exclude = list(exclude)\n    exclude.append(src.FN_STATE_POINT)", "        exclude = list(exclude)\n    num_patterns = len(exclude)\n    exclude.append(src.FN_STATE_POINT)"),
  (S, "            deep=deep,\n        )\n\n    if doc_sync not in (DocSync.NO_SYNC, DocSync.COPY):", "            deep=deep,\n        )\n    del exclude[num_patterns:]\n\n    if doc_sync not in (DocSync.NO_SYNC, DocSync.COPY):"))
v("b55-clone-through-proxy-wrapper", ["C13", "C15", "C04"], "the clone copies through a local wrapper that delegates to the proxy's copytree",
  (S, "    def _clone_or_sync(src_job):\n        \"\"\"Clone a job if it does not exist, or sync if it exists.\"\"\"\n        try:\n            destination.clone(src_job, copytree=proxy.copytree)",
      "    def _copytree(src, dst):\n        return proxy.copytree(src, dst)\n\n    def _clone_or_sync(src_job):\n        \"\"\"Clone a job if it does not exist, or sync if it exists.\"\"\"\n        try:\n            destination.clone(src_job, copytree=_copytree)"))
v("b56-exclude-copy-unconditional", ["C13", "C15"], "the exclude list is copied with a comprehension instead of list()",
  (S, "        exclude = list(exclude)\n", "        exclude = [p for p in exclude]\n"))
v("b57-main-job-init-local", ["C12", "C02"], "CLI: the create flag is bound to a local first",
  ("signac/__main__.py", "    if args.create:\n        job.init()\n    if args.path:", "    create = args.create\n    if create:\n        job.init()\n    if args.path:"))
v("b58-setter-register-after-lock", ["C08", "C04", "C03"], "registration kept after the re-key, new state point bound to a local",
  (J, "        self._project._register(self.id, new_statepoint)\n\n    @property\n    def sp(self):", "        new_id = self.id\n        self._project._register(new_id, new_statepoint)\n\n    @property\n    def sp(self):"))
v("b59-update-mtime-stat", ["C14", "C13"], "FileSync.update spelled with os.stat (follows links like getmtime)",
  (S, "os.path.getmtime(src.fn(fn)) > os.path.getmtime(dst.fn(fn))", "os.stat(src.fn(fn)).st_mtime > os.stat(dst.fn(fn)).st_mtime"))
v("b60-check-validity-tuple", ["C16", "C17"], "paths materialised as a tuple",
  (IE, "    paths = list(paths)\n", "    paths = tuple(paths)\n"))
v("b61-update-statepoint-local-copy", ["C04"], "the copied state point bound under another name",
  (J, "        statepoint = self.statepoint()\n        if not overwrite:\n            for key, value in update.items():\n                if statepoint.get(key, value) != value:",
      "        current = self.statepoint()\n        statepoint = current\n        if not overwrite:\n            for key, value in update.items():\n                if statepoint.get(key, value) != value:"))
v("b62-linked-view-path-local", ["C17"], "job path bound to a local before being stored",
  (LV, "        links[paths] = job.path\n", "        target = job.path\n        links[paths] = target\n"))
v("b63-near-defaults-tuple", ["C06"], "$near default tolerances bound through a tuple",
  (SI, "        rel_tol, abs_tol = 1e-9, 0.0  # default values", "        defaults = (1e-9, 0.0)\n        rel_tol, abs_tol = defaults"))

v("b64-near-padding-correct", ["C06"], "$near argument padded with the defaults that are missing (correct alignment)",
  (SI, """        rel_tol, abs_tol = 1e-9, 0.0  # default values
        if isinstance(argument, (list, tuple)):
            if len(argument) == 1:
                argument = argument[0]
            elif len(argument) == 2:
                argument, rel_tol = argument
            elif len(argument) == 3:
                argument, rel_tol, abs_tol = argument
            else:
                err_msg = (
                    "The argument of the $near operator must be a float or a list of floats with "
                    "length 1, 2, or 3."
                )
                raise ValueError(err_msg)
""", """        defaults = (None, 1e-9, 0.0)
        if not isinstance(argument, (list, tuple)):
            argument = (argument,)
        if not 1 <= len(argument) <= 3:
            err_msg = (
                "The argument of the $near operator must be a float or a list of floats with "
                "length 1, 2, or 3."
            )
            raise ValueError(err_msg)
        argument, rel_tol, abs_tol = (*argument, *defaults[len(argument):])
"""))


# ---- variants for the rules added after round 5
v("b65-build-index-hoist-invariant", ["C06", "C07", "C05"], "loop-invariant workspace path hoisted out of the indexing loop",
  (P, "        for job_id in self._find_job_ids():\n            doc = {\"sp\": self._get_statepoint(job_id)}", "        workspace = self.workspace\n        for job_id in self._find_job_ids():\n            doc = {\"sp\": self._get_statepoint(job_id)}"),
  (P, "fn_document = os.sep.join((self.workspace, job_id, Job.FN_DOCUMENT))", "fn_document = os.sep.join((workspace, job_id, Job.FN_DOCUMENT))"))
v("b66-check-listing-local", ["C09", "C03", "C11"], "check(): the listing bound to a local before the loop",
  (P, "        logger.info(\"Checking workspace for corruption...\")\n        for job_id in self._find_job_ids():", "        logger.info(\"Checking workspace for corruption...\")\n        listed = self._find_job_ids()\n        for job_id in listed:"))
v("b67-parse-filter-tokens-local", ["C07", "C06"], "tokens bound to a local",
  (FPA, "        yield from parse_simple(filter.split())", "        tokens = filter.split()\n        yield from parse_simple(tokens)"))
v("b68-hashable-dict-frozenset", ["C06", "C07", "C18"], "order-independent hash spelled with frozenset",
  ("signac/_utility.py", "        return hash(tuple(sorted(self.items())))", "        return hash(frozenset(self.items()))"))
v("b69-sync-doc-local", ["C13", "C14", "C15"], "destination document bound to a local before the backup context",
  (S, "            with proxy.create_doc_backup(dst.document) as dst_proxy:\n                doc_sync(src.document, dst_proxy)\n\n\nFileTransferStats", "            dst_doc = dst.document\n            with proxy.create_doc_backup(dst_doc) as dst_proxy:\n                doc_sync(src.document, dst_proxy)\n\n\nFileTransferStats"))
v("b70-crawl-walk-topdown-explicit", ["C16"], "default topdown spelled out",
  (IE, "    for path, dirs, _ in os.walk(root):", "    for path, dirs, _ in os.walk(root, topdown=True):"))
v("b71-zip-relpath-local", ["C16"], "relative member name bound to a local",
  (IE, "            fn_dst = self.job.fn(os.path.relpath(name, self.root))", "            rel = os.path.relpath(name, self.root)\n            fn_dst = self.job.fn(rel)"))
v("b72-locate-config-start-local", ["C19", "C20"], "absolute start bound to a local first",
  (CFG_, "    orig_search_path = search_path\n    search_path = os.path.abspath(search_path)\n", "    orig_search_path = search_path\n    start = os.path.abspath(search_path)\n    search_path = start\n"))
v("b73-project-immutable-class-defaults", ["C08", "C02"], "immutable class-level defaults for the cache bookkeeping flags (the cache dict itself stays per instance)",
  (P, "    _use_pandas_for_html_repr = True  # toggle use of pandas for html repr\n\n    def __init__(self, path=None):", "    _use_pandas_for_html_repr = True  # toggle use of pandas for html repr\n    _sp_cache_read = False\n    _sp_cache_misses = 0\n\n    def __init__(self, path=None):"))
v("b74-load-validate-hoisted", ["C01", "C09"], "load(): the expected id bound to a local, in-memory update still after the check",
  (J, "        if calc_id(data) != job_id:\n            raise JobsCorruptedError([job_id])\n\n        with self._suspend_sync:", "        found = calc_id(data)\n        if found != job_id:\n            raise JobsCorruptedError([job_id])\n\n        with self._suspend_sync:"))
v("b75-update-cache-tmp-name-local", ["C10", "C03", "C08"], "update_cache: same temporary, suffix via a constant",
  (P, "            fn_cache_tmp = fn_cache + \"~\"", "            suffix = \"~\"\n            fn_cache_tmp = fn_cache + suffix"))

v("b76-open-job-bisect-correct", ["C02", "C05"], "abbreviated ids resolved by bisection of the sorted listing with an inclusive upper key (bisect_right)",
  (P, "from collections import defaultdict\n", "from bisect import bisect_left, bisect_right\nfrom collections import defaultdict\n"),
  (P, "                job_ids = self._find_job_ids()\n                matches = [id_ for id_ in job_ids if id_.startswith(id)]\n",
      "                job_ids = sorted(self._find_job_ids())\n                first = bisect_left(job_ids, id)\n                last = bisect_right(job_ids, id + \"f\" * (JOB_ID_LENGTH - len(id)))\n                matches = job_ids[first:last]\n"))


# ---- variants for the rules added after round 6
v("b77-reduce-results-ifexp-none", ["C06", "C07"], "first-match test written as a conditional expression on `is None`",
  (SI, "            if result_ids is None:  # First match\n                result_ids = match\n            else:  # Update previous match\n                result_ids = result_ids.intersection(match)",
       "            result_ids = match if result_ids is None else result_ids.intersection(match)"))
v("b78-find-expression-float-local", ["C06", "C07"], "float form bound to a separate local; the int key still comes from the original value",
  (SI, "            if isinstance(value, Number) and float(value).is_integer():\n                result_float = index.get(_float(value), set())",
       "            fvalue = float(value) if isinstance(value, Number) else None\n            if fvalue is not None and fvalue.is_integer():\n                result_float = index.get(_float(value), set())"))
v("b79-read-cache-text-utf8", ["C08", "C03", "C10"], "cache read in text mode with an explicit UTF-8 encoding",
  (P, "            with gzip.open(self.fn(self.FN_CACHE), \"rb\") as cachefile:\n                cache = json.loads(cachefile.read().decode())",
      "            with gzip.open(self.fn(self.FN_CACHE), \"rt\", encoding=\"utf-8\") as cachefile:\n                cache = json.loads(cachefile.read())"))
v("b80-doc-backup-condition-local", ["C14", "C13", "C15"], "the in-memory decision bound to a local",
  (S, "        if not len(proxy) or fn is None or not os.path.isfile(fn):\n            backup = deepcopy(doc)", "        in_memory = not len(proxy) or fn is None or not os.path.isfile(fn)\n        if in_memory:\n            backup = deepcopy(doc)"))
v("b81-docproxy-setitem-early-return", ["C15", "C14", "C13"], "dry-run guard of _DocProxy.__setitem__ written as an early return",
  (S, "        logger.more(f\"Set '{key}'='{value}'.\")\n        if not self.dry_run:\n            self.doc[key] = value\n", "        logger.more(f\"Set '{key}'='{value}'.\")\n        if self.dry_run:\n            return\n        self.doc[key] = value\n"))
v("b82-update-view-linkdir-local", ["C17"], "directory of the link bound to a local",
  (LV, "        src = os.path.relpath(links[path], os.path.split(dst)[0])", "        link_dir = os.path.dirname(dst)\n        src = os.path.relpath(links[path], link_dir)"))
v("b83-init-project-config-helper", ["C19", "C20", "C12"], "the read-modify-write of the new configuration moved into a local helper unchanged",
  (P, "            fn_config = _get_project_config_fn(path)\n            _mkdir_p(os.path.dirname(fn_config))\n            config = _read_config_file(fn_config)\n            config[\"schema_version\"] = SCHEMA_VERSION\n            config.write()\n            project = cls.get_project(path=path)",
      "            _write_new_project_config(path)\n            project = cls.get_project(path=path)"),
  (P, "\n\ndef init_project(path=None):", "\n\ndef _write_new_project_config(path):\n    fn_config = _get_project_config_fn(path)\n    _mkdir_p(os.path.dirname(fn_config))\n    config = _read_config_file(fn_config)\n    config[\"schema_version\"] = SCHEMA_VERSION\n    config.write()\n\n\ndef init_project(path=None):"))
v("b84-wsread-json-helper", ["C09", "C01", "C11", "C02"], "state point file decoded by a helper that returns exactly what json decoded",
  (P, "            with open(fn_statepoint, \"rb\") as statepoint_file:\n                statepoint = json.loads(statepoint_file.read().decode())\n                if validate and calc_id(statepoint) != job_id:\n                    raise JobsCorruptedError([job_id])\n\n                return statepoint",
      "            statepoint = _decode_json_file(fn_statepoint)\n            if validate and calc_id(statepoint) != job_id:\n                raise JobsCorruptedError([job_id])\n\n            return statepoint"),
  (P, "\n\nclass _ProjectConfig", "\n\nclass _ProjectConfig") if False else (P, "JOB_ID_LENGTH = 32\n", "JOB_ID_LENGTH = 32\n\n\ndef _decode_json_file(filename):\n    with open(filename, \"rb\") as file:\n        return json.loads(file.read().decode())\n\n"))
v("b85-setter-register-in-else", ["C08", "C01", "C04"], "registration in the else of a try around the re-key (only after success)",
  (J, "            self.statepoint.reset(new_statepoint)\n\n        self._project._register(self.id, new_statepoint)", "            try:\n                self.statepoint.reset(new_statepoint)\n            except Exception:\n                raise\n            else:\n                self._project._register(self.id, new_statepoint)"))


# ---- variants for the rules added after round 7
v("b86-load-config-single-loop-project-last", ["C19", "C20"], "configuration files merged in one loop, project-local file last",
  (CFG_, "    for fn in (USER_CONFIG_FN,):\n        if os.path.isfile(fn):\n            config.merge(_read_config_file(fn))\n\n    if os.path.isfile(_get_project_config_fn(path)):\n        config.merge(_read_config_file(_get_project_config_fn(path)))\n",
         "    for fn in (USER_CONFIG_FN, _get_project_config_fn(path)):\n        if os.path.isfile(fn):\n            config.merge(_read_config_file(fn))\n"))
v("b87-get-job-fspath", ["C19"], "get_job accepts path-like objects, still normalised with abspath",
  (P, "        path = os.path.abspath(path)\n", "        path = os.path.abspath(os.fspath(path))\n"))
v("b88-migration-lock-explicit-blocking", ["C20"], "the default (blocking) timeout spelled out",
  (MIG, "        lock = FileLock(os.path.join(root_directory, FN_MIGRATION_LOCKFILE))", "        lock = FileLock(os.path.join(root_directory, FN_MIGRATION_LOCKFILE), timeout=-1)"))
v("b89-convert-bool-table-constant", ["C16"], "boolean spellings moved to a module constant, look-up still lower-cases",
  (IE, "    return {\"true\": True, \"1\": True, \"false\": False, \"0\": False}.get(\n        value.lower(), bool(value)\n    )", "    return _BOOL_LITERALS.get(value.lower(), bool(value))"),
  (IE, "\n\ndef _convert_bool(value):", "\n\n_BOOL_LITERALS = {\"true\": True, \"1\": True, \"false\": False, \"0\": False}\n\n\ndef _convert_bool(value):"))
v("b90-zip-relpath-local", ["C16"], "relative directory inside the archive bound to a local",
  (IE, "                    arcname=os.path.join(dst, os.path.relpath(root, src), fn),", "                    arcname=os.path.join(dst, os.path.relpath(root, start=src), fn),"))
v("b91-unique-check-normpath", ["C16", "C17"], "uniqueness check counts normalised paths (generated paths are normalised already)",
  (IE, "    job_paths = Counter(path_function(job) for job in jobs)", "    job_paths = Counter(os.path.normpath(path_function(job)) for job in jobs)"))
v("b92-parse-single-pattern-local", ["C07", "C06"], "regex pattern bound to a local",
  (FPA, "        return key, {\"$regex\": value[1:-1]}", "        pattern = value[1:-1]\n        return key, {\"$regex\": pattern}"))
v("b93-project-contains-local", ["C07", "C03", "C02"], "id bound to a local before the membership test",
  (P, "        return self._contains_job_id(job.id)", "        job_id = job.id\n        return self._contains_job_id(job_id)"))
v("b94-save-rename-plain-wrapper", ["C04", "C03", "C11"], "the directory rename goes through a plain wrapper that maps nothing",
  (J, "                os.replace(job.path, new_workspace)", "                _rename_directory(job.path, new_workspace)"),
  (J, "\n\ndef calc_id(statepoint):", "\n\ndef _rename_directory(src, dst):\n    os.replace(src, dst)\n\n\ndef calc_id(statepoint):"))
v("b95-import-init-explicit-validate", ["C16"], "validating init spelled out",
  (IE, "    else:\n        job.init()\n    return dst", "    else:\n        job.init(validate_statepoint=True)\n    return dst"))

v("b96-float-hash-negated", ["C06", "C18", "C07"], "another hash shift for _float keys; separation is guaranteed by the type-exclusive __eq__",
  (SI, "        return super().__hash__() + 1\n", "        return -super().__hash__()\n"))


# ---- variants for the rules added after round 8
v("b97-float-pattern-noncapturing", ["C16"], "float pattern with a non-capturing group",
  (IE, "    \"float\": r\"[+-]?([0-9]*[\\.])?[0-9]+\",", "    \"float\": r\"[+-]?(?:[0-9]*[\\.])?[0-9]+\","))
v("b98-collect-migrations-flipped", ["C20"], "strict 'newer' test written the other way round",
  (MIG, "    if current_schema_version > schema_version:", "    if schema_version < current_schema_version:"))
v("b99-update-cache-guard-order", ["C08", "C03", "C10"], "operands of the id-set comparison exchanged",
  (P, "        if cache is None or set(cache) != cached_ids:", "        if cache is None or cached_ids != set(cache):"))
v("b100-root-keys-partition", ["C07", "C06"], "first component taken with partition",
  (FPA, "            yield key.split(\".\", 1)[0]", "            yield key.partition(\".\")[0]"))
v("b101-node-get-child-local", ["C17"], "child node bound to a local",
  (LV, "        return self.children.setdefault(name, type(self)(name))", "        child = self.children.setdefault(name, type(self)(name))\n        return child"))
v("b102-is-json-like-slices", ["C07", "C06"], "bracket test written with slices",
  (FPA, "    return (q[0] == \"{\" and q[-1] == \"}\") or (q[0] == \"[\" and q[-1] == \"]\")", "    return q[:1] + q[-1:] in (\"{}\", \"[]\") and len(q) >= 2"))
v("b103-float-eq-isinstance", ["C06", "C18"], "type-exclusive equality spelled with isinstance",
  (SI, "        return type(other) is _float and float(self) == float(other)", "        return isinstance(other, _float) and float(self) == float(other)"))


def main():
    os.makedirs(OUT, exist_ok=True)
    for f in os.listdir(OUT):
        os.remove(os.path.join(OUT, f))
    bad = 0
    for var in V:
        srcs = {}
        ok = True
        for e in var["edits"]:
            p = os.path.join(REPO, e["file"])
            s = srcs.get(p) or open(p).read()
            if s.count(e["old"]) != 1:
                print("DOES NOT APPLY", var["id"], e["file"], s.count(e["old"]))
                ok = False
                break
            srcs[p] = s.replace(e["old"], e["new"])
        if ok:
            for p, s in srcs.items():
                try:
                    ast.parse(s)
                except SyntaxError as ex:
                    print("SYNTAX", var["id"], ex)
                    ok = False
        if ok:
            json.dump(var, open(os.path.join(OUT, var["id"] + ".json"), "w"), indent=1)
        else:
            bad += 1
    print(len(V) - bad, "benign variants written,", bad, "rejected")


main()
