"""C18 - schema detection and job diffs are exact summaries of the state points."""
import ast

from ..engine import rule, Ctx
from ..core import UNKNOWN, dotted, kwarg, body_nodes, inline, stmt_key, canon, walk_no_nested, names_in
from . import common
from .c06 import c06_c

PROP = "C18"
FLOOR = 10
EXPLANATION = (
    "Decided (structural necessary conditions): (a) the typed value index keeps Python-equal values of different JSON type "
    "apart (shared with C06-c); (b) the schema is built from state points only: detect_schema indexes without job documents "
    "and _build_job_statepoint_index keeps only keys of the 'sp' namespace, whose prefix is removed as a leading prefix only "
    "(not by text replacement); a subset restricts the index whenever it is not None (an empty subset is a subset); (c) the "
    "exclude_const decision requires both a single distinct value and that value covering the whole population; "
    "_collect_by_type groups by type(v); (d) diff_jobs is set algebra over the flattened (dotted key, value) pairs of each "
    "job: intersection over all jobs, per-job difference, no presence test that conflates a missing key with a None value."
    ' (f) The schema and diff loops carry nothing between keys / jobs.'
    ' The index that is summarised walks the directory listing: _build_index never iterates ids handed in by the caller (membership would then be decided by the state point cache).'
    " (h) `signac schema` / `signac diff`: an empty selection is not 'all jobs', --exclude-const reaches detect_schema unchanged together with the subset (C18-h)."
)
UNDECIDED = "Exactness for all corpora and the reconstruction property of diff_jobs are value-level and not decided."

SCH = "signac.schema"
DS = "signac.project:Project.detect_schema"


@rule("C18-a")
def c18_a(ctx: Ctx):
    """Typed value index (same obligation as C06-c)."""
    out = []
    for r in c06_c(ctx):
        r.rule = "C18-a"
        out.append(r)
    return out


@rule("C18-b")
def c18_b(ctx: Ctx):
    """Schema from state points only; prefix stripping; subset handling."""
    R = "C18-b"
    out = []
    f = ctx.fn(DS)
    bi = [c for c in body_nodes(f) if isinstance(c, ast.Call) and "signac.project:Project._build_index" in common.targets_of(ctx, f, c)]
    g = ctx.fn(SCH + ":_build_job_statepoint_index")
    nsfilter = [n for n in body_nodes(g) if isinstance(n, ast.Compare) and "split('.')[0]" in canon(n.left) and ctx.fold(n.comparators[0], g) == "sp"]
    docs_indexed = None
    for c in bi:
        a = kwarg(c, "include_job_document") or (c.args[0] if c.args else None)
        v = False if a is None else ctx.fold(a, f)
        docs_indexed = v
    if docs_indexed is False and nsfilter:
        out.append(ctx.ok(R, f, bi[0], "documents are not indexed and only 'sp.' keys are kept: the schema describes state points only"))
    elif docs_indexed is False or nsfilter:
        out.append(ctx.ok(R, f, bi[0] if bi else f.node, "one of the two barriers (no documents indexed / 'sp' namespace filter) is in place"))
        out.append(ctx.info(R, f, f.node, f"barriers: documents indexed={docs_indexed!r}, namespace filter={'yes' if nsfilter else 'no'}"))
    elif docs_indexed is UNKNOWN:
        out.append(ctx.inc(R, f, f.node, "include_job_document is not a constant and there is no namespace filter"))
    else:
        out.append(ctx.viol(R, f, f.node, "job documents are indexed and keys are not filtered by namespace: document keys appear in the state point schema"))
    sp = ctx.fn(SCH + ":_strip_prefix")
    rets = [n for n in body_nodes(sp) if isinstance(n, ast.Return) and n.value is not None]
    for r in rets:
        v = r.value
        t = canon(v).replace(" ", "")
        if isinstance(v, ast.Subscript) and isinstance(v.slice, ast.Slice) and v.slice.lower is not None and v.slice.upper is None:
            lo = ctx.fold(v.slice.lower, sp)
            if lo is UNKNOWN and canon(v.slice.lower).replace(" ", "") == "len('sp.')":
                lo = 3
            if lo == 3:
                out.append(ctx.ok(R, sp, r, "the leading 'sp.' (3 characters) is sliced off"))
            else:
                out.append(ctx.viol(R, sp, r, f"_strip_prefix slices off {lo!r} characters; the prefix 'sp.' has 3"))
        elif ".removeprefix('sp.')" in t or t.endswith("split('.',1)[1]"):
            out.append(ctx.ok(R, sp, r, "the leading namespace prefix is removed"))
        elif ".replace(" in t or ".lstrip(" in t or ".strip(" in t or ".split('sp.')" in t or ".rsplit('sp.'" in t or ".partition('sp.')" in t or ".rpartition('sp.')" in t:
            out.append(ctx.viol(R, sp, r, f"_strip_prefix uses {t}: every occurrence / any leading character of 'sp.' is removed, so nested keys such as 'disp.x' or 'resp.gain' are reported "
                                "under mangled names (and may collide)"))
        else:
            out.append(ctx.inc(R, sp, r, "prefix stripping not recognised: " + t))
    # subset
    # the index that is summarised: whatever is handed to _build_job_statepoint_index(index=...); assignments to it that derive from `subset` restrict it
    bcalls = [c for c in body_nodes(f) if isinstance(c, ast.Call) and any(q.endswith(":_build_job_statepoint_index") for q in common.targets_of(ctx, f, c))]
    ixnames = set()
    for c in bcalls:
        a0 = kwarg(c, "index") or (c.args[1] if len(c.args) > 1 else None)
        if isinstance(a0, ast.Name):
            ixnames.add(a0.id)
    dsub = common.derived_names(f, "subset") if "subset" in f.params else set()
    sub = [n for n in body_nodes(f) if isinstance(n, ast.Assign) and any(isinstance(t, ast.Name) and t.id in ixnames for t in n.targets) and (dsub & names_in(n.value))]
    if "subset" in f.params:
        if not ixnames:
            out.append(ctx.inc(R, f, f.node, "the index handed to _build_job_statepoint_index is not a local variable"))
        elif not sub:
            out.append(ctx.viol(R, f, f.node, "detect_schema accepts `subset` but never restricts the index with it"))
        for a in sub:
            facts = common.facts_at(ctx, f, a, "n")
            about = [(t, p) for (t, p) in facts if "subset" in names_in(ast.parse(t, mode="eval").body)] if facts else []
            if ("subset is None", False) in facts:
                out.append(ctx.ok(R, f, a, "the index is restricted whenever subset is not None"))
            elif ("subset", True) in facts:
                out.append(ctx.viol(R, f, a, "the index is restricted only when `subset` is truthy: an empty selection (e.g. a cursor that matches nothing) yields the schema of the whole project"))
            elif not about:
                out.append(ctx.ok(R, f, a, "the index is always restricted to the subset"))
            else:
                out.append(ctx.inc(R, f, a, f"subset guard: {sorted(about)}"))
    # the jobs that are summarised are listed jobs: _build_index walks the directory listing; ids handed in from outside would be resolved through the state
    # point cache, which still knows removed jobs
    bif = ctx.prog.funcs.get("signac.project:Project._build_index")
    kb = "signac.project:Project._build_index|iterates-the-listing"
    if bif is None:
        out.append(ctx.inc(R, None, None, "_build_index not found", construct=kb))
    else:
        lps = [n for n in bif.node.body if isinstance(n, ast.For)] or [n for n in body_nodes(bif) if isinstance(n, ast.For)]
        if not lps:
            out.append(ctx.inc(R, bif, bif.node, "_build_index has no loop", construct=kb))
        else:
            lp = lps[0]
            srcs = [lp.iter] if not isinstance(lp.iter, ast.Name) else list(common.reaching_defs(ctx, bif, lp.iter.id, lp))
            listed = [d for d in srcs if isinstance(d, ast.Call) and any(t.qual.endswith(("._find_job_ids", "._job_dirs")) for t in common.targets_of_funcs(ctx, bif, d)) and not d.args and not d.keywords]
            foreign = [d for d in srcs if d == "<param>" or (isinstance(d, ast.AST) and d not in listed)]
            if foreign:
                out.append(ctx.viol(R, bif, lp, "_build_index can iterate ids handed in by the caller instead of the directory listing: membership is then decided by _get_statepoint, i.e. by the "
                                    "state point cache, which keeps entries of removed jobs - detect_schema(subset=<old list>) reports keys and values of jobs that no longer exist", construct=kb))
            elif listed:
                out.append(ctx.ok(R, bif, lp, "_build_index iterates the directory listing", construct=kb))
            else:
                out.append(ctx.inc(R, bif, lp, "iteration source of _build_index not recognised", construct=kb))
    uses = [n for n in body_nodes(f) if isinstance(n, ast.Attribute) and n.attr == "_sp_cache"]
    if uses:
        out.append(ctx.viol(R, f, uses[0], "detect_schema consults the state point cache: the cache keeps entries of removed jobs, so a subset that names a removed job contributes keys and values "
                            "of a job that no longer exists", construct=DS + "|no-cache"))
    else:
        out.append(ctx.ok(R, f, f.node, "the selected jobs are validated against the freshly built index, not against the state point cache", construct=DS + "|no-cache", nontrivial=False))
    inter = [n for n in body_nodes(f) if isinstance(n, ast.Call) and isinstance(n.func, ast.Attribute) and n.func.attr == "intersection"
             and any(isinstance(x, ast.Call) and isinstance(x.func, ast.Attribute) and x.func.attr == "keys" for x in ast.walk(n))]
    if "subset" in f.params:
        if inter:
            out.append(ctx.ok(R, f, inter[0], "a subset is intersected with the ids of the index built from the workspace", construct=DS + "|subset-intersection"))
        else:
            out.append(ctx.inc(R, f, f.node, "subset is not intersected with the index keys", construct=DS + "|subset-intersection"))
    cb = f.nested.get("_collect_by_type") or ctx.prog.funcs.get(f.module.name + ":_collect_by_type")
    if cb is not None:
        lt = {x for n in body_nodes(cb) if isinstance(n, ast.For) for x in common.target_names(n.target)}
        ok = any(isinstance(n, ast.Subscript) and common.pmatch("type(V)", n.slice) is not None and canon(n.slice.args[0]) in lt for n in body_nodes(cb))
        if ok:
            out.append(ctx.ok(R, cb, cb.node, "values are grouped by type(v)"))
        else:
            out.append(ctx.inc(R, cb, cb.node, "grouping by type not recognised"))
    return out


@rule("C18-c")
def c18_c(ctx: Ctx):
    """exclude_const depends on the number of distinct values and on the population size."""
    R = "C18-c"
    g = ctx.fn(SCH + ":_build_job_statepoint_index")
    out = []
    conts = [n for n in body_nodes(g) if isinstance(n, ast.Continue)]
    hit = False
    for c in conts:
        facts = common.facts_at(ctx, g, c, "n")
        if ("exclude_const", True) not in facts:
            continue
        hit = True
        def _is_one(t):
            try:
                return common.pmatch("len(D[K]) == 1", ast.parse(t, mode="eval").body) is not None
            except SyntaxError:
                return False
        one = any(pol and _is_one(t) for (t, pol) in facts)
        pop = any(pol and "len(index)" in t and "==" in t for (t, pol) in facts)
        if one and pop:
            out.append(ctx.ok(R, g, c, "a key is dropped as constant only if it has one distinct value and that value is held by every job"))
        elif one:
            out.append(ctx.viol(R, g, c, "a key is dropped as constant as soon as it has a single distinct value, even if only some jobs have the key at all"))
        else:
            out.append(ctx.viol(R, g, c, f"exclude_const drops keys under {sorted(facts)}"))
    if not hit:
        out.append(ctx.viol(R, g, g.node, "exclude_const has no effect"))
    ph = [n for n in body_nodes(g) if isinstance(n, ast.Call) and isinstance(n.func, ast.Attribute) and n.func.attr == "pop" and "_DictPlaceholder" in canon(n)]
    if ph:
        out.append(ctx.ok(R, g, ph[0], "the placeholder for nested mappings is removed from the reported values"))
    # the values handed out must still be the typed index (a plain dict would merge 1 and 1.0 again)
    ys = [n for n in body_nodes(g) if isinstance(n, ast.Yield) and isinstance(n.value, ast.Tuple) and len(n.value.elts) == 2]
    for y in ys:
        v = y.value.elts[1]
        if isinstance(v, ast.Name):
            d = common.reaching_def(ctx, g, v.id, y)
            v = d if d is not None else v
        t = canon(v).replace(" ", "")
        if t.startswith("indexes[") or t.startswith("index.build_index("):
            out.append(ctx.ok(R, g, y, "the per-key values are handed out as the typed index object itself"))
        elif isinstance(v, (ast.DictComp, ast.Dict)) or (isinstance(v, ast.Call) and canon(v.func) in ("dict", "defaultdict", "collections.defaultdict")):
            out.append(ctx.viol(R, g, y, f"the per-key values are copied into a plain dict ({t[:50]}): int and float values that compare equal (1 and 1.0) collapse into one entry, "
                                "so detect_schema loses one of them"))
        else:
            out.append(ctx.inc(R, g, y, "yielded values: " + t[:60]))
    from .lints import groupby_sorted
    out += groupby_sorted(ctx, R, ("signac.project", "signac.schema", "signac.diff"))
    return out


@rule("C18-d")
def c18_d(ctx: Ctx):
    """diff_jobs is set algebra over flattened (key, value) pairs."""
    R = "C18-d"
    f = ctx.desugared(ctx.fn("signac.diff:diff_jobs"))
    out = []
    txt = " ".join(canon(n) for n in body_nodes(f) if isinstance(n, (ast.Assign, ast.Return)))
    flat = [c for c in body_nodes(f) if isinstance(c, ast.Call) and "signac._utility:_nested_dicts_to_dotted_keys" in common.targets_of(ctx, f, c)]
    gets = [c for c in body_nodes(f) if isinstance(c, ast.Call) and isinstance(c.func, ast.Attribute) and c.func.attr == "get"
            and (len(c.args) == 1 or (len(c.args) == 2 and isinstance(c.args[1], ast.Constant) and c.args[1].value is None))]
    if gets:
        out.append(ctx.viol(R, f, gets[0], f"{canon(gets[0])[:50]} is used as a combined presence-and-equality test: a key whose value is None in one job and missing in another is "
                            "treated as shared, so diff plus common part no longer reconstructs the state point (and the result depends on argument order)"))
    wrap = [c for c in body_nodes(f) if isinstance(c, ast.Call) and (common.ext_name(ctx, f, c) in ("json.dumps", "builtins.repr", "builtins.str", "pickle.dumps", "builtins.hash"))]
    if wrap:
        out.append(ctx.viol(R, f, wrap[0], f"values are compared through {canon(wrap[0].func)}(...) instead of as Python values: 4 and 4.0 (or True and 1), which compare equal, become different, so a "
                            "key all jobs agree on appears in every job's diff"))
    inter_defs = [n for n in body_nodes(f) if isinstance(n, ast.Assign) and len(n.targets) == 1 and isinstance(n.targets[0], ast.Name)
                  and (common.pmatch("set.intersection(*A)", n.value) is not None or (isinstance(n.value, ast.BinOp) and isinstance(n.value.op, ast.BitAnd)))]
    INT = inter_defs[0].targets[0].id if inter_defs else None
    if flat and INT:
        out.append(ctx.ok(R, f, flat[0], "state points are flattened to (dotted key, value) pairs and intersected over all jobs"))
        minus = [b for n in body_nodes(f) if isinstance(n, ast.Assign) for (_, b) in (common.pfind("A - B", n.value) + common.pfind("A.difference(B)", n.value)) if canon(b["B"]) == INT]
        if minus:
            out.append(ctx.ok(R, f, f.node, "each job's diff is its own pairs minus the common pairs"))
        else:
            out.append(ctx.inc(R, f, f.node, "per-job difference not recognised"))
    elif not gets:
        out.append(ctx.inc(R, f, f.node, "diff_jobs is not the recognised set algebra over flattened pairs"))
    from .lints import nested_builder
    out += nested_builder(ctx, R)
    jl = {x for lp, _b in common.loop_over(f, f.params[0] if f.params else "jobs") for x in common.target_names(lp.target)}
    own = [b for n in body_nodes(f) if isinstance(n, ast.expr) for pat in ("J.statepoint()", "J.sp()") for b in [common.pmatch(pat, n)] if b and canon(b["J"]) in jl]
    raw = [n for n in body_nodes(f) if isinstance(n, ast.Attribute) and n.attr in ("cached_statepoint", "_cached_statepoint") and canon(n.value) in jl]
    if raw:
        out.append(ctx.viol(R, f, raw[0], f"diff_jobs reads `{canon(raw[0])}`: for a handle opened with open_job(statepoint) that is the caller's own mapping, not the JSON-normalised state point "
                            "(tuples are not lists there), so the flattening fails (TypeError: unhashable) or yields other pairs than for the same job opened by id", construct=f.qual + "|normalised-statepoint"))
    elif own:
        out.append(ctx.ok(R, f, f.node, "diffs are computed from each job's own state point", nontrivial=False))
    return out


@rule("C18-e")
def c18_e(ctx: Ctx):
    """subset=None means all jobs; an empty subset yields the empty schema."""
    from .lints import sentinel_discipline
    return sentinel_discipline(ctx, "C18-e", [("signac.project:Project.detect_schema", "subset", "an empty selection (a cursor that matches nothing) must give the empty schema, not the schema of the whole project")])


@rule("C18-f")
def c18_f(ctx: Ctx):
    """Per-job / per-entry loops are independent: nothing read in one iteration was computed in another."""
    from .lints import per_item_loops, late_binding_in_loops
    return late_binding_in_loops(ctx, "C18-f", ("signac.schema", "signac.diff", "signac.project")) + per_item_loops(ctx, "C18-f", [('signac.schema:_build_job_statepoint_index', 'a key is reported with the values collected for the previous key'), ('signac.project:Project.detect_schema', 'a key is reported with the types collected for the previous key'), ('signac.diff:diff_jobs', "a job's diff is computed from another job's state point")])


@rule("C18-g")
def c18_g(ctx: Ctx):
    """Values keep their kind on the way into schema and diff: a mapping inside a list stays a mapping, and equal mappings hash equally (from C06-g)."""
    from .c06 import c06_g
    res = [r for r in c06_g(ctx) if "mapping-stays-mapping" in r.construct or "hash-eq" in r.construct]
    for r in res:
        r.rule = "C18-g"
    return res


@rule("C18-h")
def c18_h(ctx: Ctx):
    """signac schema / diff: an empty selection is not 'all jobs'; --exclude-const reaches detect_schema unchanged."""
    from . import cli
    return cli.selection_discipline(ctx, "C18-h", {"main_diff", "main_schema"}) + cli.option_forwarding(ctx, "C18-h", ["main_schema"])


RULES = [c18_a, c18_b, c18_c, c18_d, c18_e, c18_f, c18_g, c18_h]
