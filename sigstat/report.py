"""sigstat.report - rule results, known findings, evidence files, exit codes."""
from __future__ import annotations

import json
import os
import time
from dataclasses import dataclass, field, asdict
from typing import List, Optional, Dict, Any

OK = "OK"
VIOLATION = "VIOLATION"
INCONCLUSIVE = "ANALYSIS-ERROR"
INFO = "INFO"

VERIF_DIR = os.path.dirname(os.path.dirname(os.path.abspath(__file__)))


@dataclass
class Result:
    rule: str  # e.g. C01-a
    status: str
    site: str  # file:line
    function: str
    detail: str
    construct: str = ""  # module:function|normalised statement  (no line numbers) - key for known findings
    nontrivial: bool = True  # bound to a concrete site and not trivially true
    witness: Optional[List[str]] = None  # path / flow that shows the violation

    def line(self):
        s = f"{self.status} rule={self.rule} site={self.site} function={self.function} detail={self.detail}"
        return s


def load_known(path=None) -> List[Dict[str, Any]]:
    path = path or os.path.join(VERIF_DIR, "known_findings.json")
    if not os.path.isfile(path):
        return []
    with open(path) as fh:
        data = json.load(fh)
    return data.get("findings", [])


def match_known(r: Result, prop: str, known: List[Dict[str, Any]]) -> Optional[Dict[str, Any]]:
    for k in known:
        if k.get("status") != "open":
            continue  # fixed entries suppress nothing
        if k.get("property") != prop:
            continue
        if k.get("rule") != r.rule:
            continue
        if k.get("construct") == r.construct:
            return k
    return None


def write_evidence(prop: str, tier: str, seed: int, results: List[Result], meta: Dict[str, Any], wall: float,
                   violations: int, known_matched: List[str], evidence_dir=None, extra_cov: Optional[Dict[str, Any]] = None):
    evidence_dir = evidence_dir or os.path.join(VERIF_DIR, "evidence")
    os.makedirs(evidence_dir, exist_ok=True)
    evaluated = [r for r in results if r.status in (OK, VIOLATION, INCONCLUSIVE)]
    distinct = {(r.rule, r.construct or r.site) for r in evaluated if r.nontrivial}
    discharged = [r for r in evaluated if r.status == OK]
    samples = []
    # deterministic sample choice, rotated by seed
    ordered = sorted(evaluated, key=lambda r: (r.rule, r.construct, r.site))
    if ordered:
        start = seed % len(ordered)
        pick = (ordered[start:] + ordered[:start])[:12]
        for r in pick:
            samples.append({"rule": r.rule, "status": r.status, "site": r.site, "function": r.function,
                            "obligation": r.detail})
    cov = {
        "explanation": meta.get("explanation", ""),
        "obligations": len(evaluated),
        "discharged": len(discharged),
        "evaluations": len(evaluated),
        "distinct_nontrivial": len(distinct),
        "rule": "one evaluation = one rule instance bound to a concrete construct of the current source tree "
                "(function, statement, call site, table entry or CFG path query); distinct = different (rule, construct) pairs; "
                "non-trivial = the construct actually contains the thing the rule speaks about (e.g. a guard rule on a "
                "function that contains a mutating call), counted by the checker.",
        "samples": samples,
        "exhaustive": False,
        "rules_applied": meta.get("rules", {}),
        "undecided": meta.get("undecided", ""),
        "modules_analysed": meta.get("modules", 0),
        "functions_analysed": meta.get("functions", 0),
        "call_sites_total": meta.get("calls_total", 0),
        "call_sites_resolved": meta.get("calls_resolved", 0),
        "instance_floor": meta.get("floor", 0),
        "digests": meta.get("digests", {}),
        "known_findings_matched": known_matched,
        "info": [r.line() for r in results if r.status == INFO][:40],
        "all_instances": [r.line() for r in evaluated][:400],
    }
    if extra_cov:
        cov.update(extra_cov)
    ev = {
        "property_id": prop,
        "tier": tier,
        "seed": seed,
        "level": "other",
        "coverage": cov,
        "assumptions": meta.get("assumptions", []),
        "wall_s": round(wall, 3),
        "violations": violations,
    }
    path = os.path.join(evidence_dir, f"{prop}.json")
    tmp = path + ".tmp"
    with open(tmp, "w") as fh:
        json.dump(ev, fh, indent=1, sort_keys=False, default=str)
    os.replace(tmp, path)
    return path


def write_violation(prop: str, idx: int, r: Result, repo: str, evidence_dir=None) -> str:
    evidence_dir = evidence_dir or os.path.join(VERIF_DIR, "evidence")
    vdir = os.path.join(evidence_dir, "violations")
    os.makedirs(vdir, exist_ok=True)
    path = os.path.join(vdir, f"{prop}-{idx}.json")
    with open(path, "w") as fh:
        json.dump({"property": prop, "repo": repo, **asdict(r)}, fh, indent=1)
    return path
