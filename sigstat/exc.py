"""sigstat.exc - exception hierarchy facts, handler classification, may-raise sets."""
from __future__ import annotations

import ast
import builtins
from typing import Dict, List, Optional, Set, Tuple

from .core import FuncInfo, dotted, walk_no_nested, body_nodes, resolve_import_name

_BUILTIN_EXC = {n: getattr(builtins, n) for n in dir(builtins)
                if isinstance(getattr(builtins, n), type) and issubclass(getattr(builtins, n), BaseException)}
_EXTRA = {
    "json.JSONDecodeError": ["ValueError"],
    "json.decoder.JSONDecodeError": ["ValueError"],
    "JSONDecodeError": ["ValueError"],
    "synced_collections.errors.KeyTypeError": ["TypeError"],
    "synced_collections.errors.InvalidKeyError": ["ValueError"],
    "KeyTypeError": ["TypeError"],
    "InvalidKeyError": ["ValueError"],
}


class ExcFacts:
    def __init__(self, ctx):
        self.ctx = ctx
        self.prog = ctx.prog
        self._raised: Dict[str, Set[str]] = {}
        self._in_progress: Set[str] = set()

    # -- hierarchy ----------------------------------------------------------
    def norm(self, fi_module, name: Optional[str]) -> Optional[str]:
        """Normalise an exception class expression to a short class name or signac qual."""
        if not name:
            return None
        cq = self.prog.resolve_class_name(fi_module, name)
        if cq:
            return cq
        full = resolve_import_name(fi_module, name)
        if full in _EXTRA:
            return full
        last = name.split(".")[-1]
        if last in _BUILTIN_EXC:
            return last
        return full or name

    def supers(self, cls: str) -> Set[str]:
        """All (transitive) base class names of an exception class (including itself)."""
        out = {cls}
        if cls in self.prog.classes:
            for q in self.ctx.calls.mro(cls):
                out.add(q)
                ci = self.prog.classes.get(q)
                if ci:
                    for b in ci.bases:
                        if b not in self.prog.classes:
                            last = b.split(".")[-1]
                            if last in _BUILTIN_EXC:
                                out |= {c.__name__ for c in _BUILTIN_EXC[last].__mro__ if c is not object}
            return out
        if cls in _EXTRA:
            for b in _EXTRA[cls]:
                out |= self.supers(b)
            return out
        last = cls.split(".")[-1]
        if last in _BUILTIN_EXC:
            out |= {c.__name__ for c in _BUILTIN_EXC[last].__mro__ if c is not object}
        else:
            out |= {"Exception", "BaseException"}  # unknown class: assume an ordinary exception
        return out

    def catches(self, handler_types: List[str], exc: str) -> bool:
        if "<bare>" in handler_types:
            return True
        s = self.supers(exc)
        return any(h in s for h in handler_types)

    def handler_type_names(self, fi: FuncInfo, h: ast.ExceptHandler) -> List[str]:
        if h.type is None:
            return ["<bare>"]
        elts = h.type.elts if isinstance(h.type, ast.Tuple) else [h.type]
        return [self.norm(fi.module, dotted(e) or ast.unparse(e)) for e in elts]

    # -- may-raise ------------------------------------------------------------
    def raised(self, fi: FuncInfo) -> Set[str]:
        """Exception classes that explicit `raise` statements in fi or its internal callees may let escape fi."""
        if fi.qual in self._raised:
            return self._raised[fi.qual]
        if fi.qual in self._in_progress:
            return set()
        self._in_progress.add(fi.qual)
        out: Set[str] = set()
        self._walk(fi, fi.node.body, [], out, None)
        self._in_progress.discard(fi.qual)
        self._raised[fi.qual] = out
        return out

    def escaping(self, fi: FuncInfo, stmts: List[ast.stmt]) -> Set[str]:
        """Exceptions that may escape the given statement list of fi (handlers inside the list are honoured)."""
        out: Set[str] = set()
        self._walk(fi, stmts, [], out, None)
        return out

    def _walk(self, fi, stmts, guards: List[List[str]], out: Set[str], cur_handler: Optional[List[str]]):
        for st in stmts:
            if isinstance(st, ast.Try):
                hts = [self.handler_type_names(fi, h) for h in st.handlers]
                flat = [t for ts in hts for t in ts]
                self._walk(fi, st.body, guards + [flat], out, cur_handler)
                self._walk(fi, st.orelse, guards, out, cur_handler)
                for h, ts in zip(st.handlers, hts):
                    self._walk(fi, h.body, guards, out, ts)
                self._walk(fi, st.finalbody, guards, out, cur_handler)
                continue
            if isinstance(st, (ast.FunctionDef, ast.AsyncFunctionDef, ast.ClassDef)):
                continue
            if isinstance(st, ast.Raise):
                if st.exc is None:
                    for t in (cur_handler or ["Exception"]):
                        self._add(out, "Exception" if t == "<bare>" else t, guards)
                else:
                    e = st.exc
                    if isinstance(e, ast.Call):
                        e = e.func
                    name = dotted(e)
                    if name and cur_handler is not None and isinstance(st.exc, ast.Name):
                        # `raise error` of the caught exception variable
                        for t in cur_handler:
                            self._add(out, "Exception" if t == "<bare>" else t, guards)
                    elif name:
                        self._add(out, self.norm(fi.module, name), guards)
            # calls inside this statement's own expressions
            from .cfg import own_exprs
            for sub in own_exprs(st):
                for n in walk_no_nested(sub):
                    if isinstance(n, ast.Call):
                        tg, ext = self.ctx.calls.resolve_call(fi, n)
                        for t in tg:
                            for e in self.raised(t):
                                self._add(out, e, guards)
                    elif isinstance(n, ast.Attribute):
                        pass
            for (attr, acc, role) in ():
                pass
            for fld in ("body", "orelse"):
                sub = getattr(st, fld, None)
                if isinstance(sub, list) and sub and isinstance(sub[0], ast.stmt):
                    self._walk(fi, sub, guards, out, cur_handler)

    def _add(self, out, exc, guards):
        if exc is None:
            return
        for g in reversed(guards):
            if self.catches(g, exc):
                return
        out.add(exc)
